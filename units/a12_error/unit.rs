// Unit A12 — robustness of the <rpc-error> reader and of the first reply parse phase (C14).
use vstd::prelude::*;
//@include units/common_macros.rs
verus! {

//@include units/common_xml.rs

//@bytelits error-type=NameId::ErrorType error-tag=NameId::ErrorTag error-severity=NameId::ErrorSeverity error-app-tag=NameId::ErrorAppTag error-path=NameId::ErrorPath error-message=NameId::ErrorMessage error-info=NameId::ErrorInfo rpc-reply=NameId::RpcReply

pub enum NameId { ErrorType, ErrorTag, ErrorSeverity, ErrorAppTag, ErrorPath, ErrorMessage, ErrorInfo, RpcReply, Other }
#[verifier::opaque]
pub open spec fn name_id(s: Seq<u8>) -> NameId {
    if s =~= seq![101u8, 114, 114, 111, 114, 45, 116, 121, 112, 101] { NameId::ErrorType }                                  // "error-type"
    else if s =~= seq![101u8, 114, 114, 111, 114, 45, 116, 97, 103] { NameId::ErrorTag }                                   // "error-tag"
    else if s =~= seq![101u8, 114, 114, 111, 114, 45, 115, 101, 118, 101, 114, 105, 116, 121] { NameId::ErrorSeverity }    // "error-severity"
    else if s =~= seq![101u8, 114, 114, 111, 114, 45, 97, 112, 112, 45, 116, 97, 103] { NameId::ErrorAppTag }              // "error-app-tag"
    else if s =~= seq![101u8, 114, 114, 111, 114, 45, 112, 97, 116, 104] { NameId::ErrorPath }                             // "error-path"
    else if s =~= seq![101u8, 114, 114, 111, 114, 45, 109, 101, 115, 115, 97, 103, 101] { NameId::ErrorMessage }           // "error-message"
    else if s =~= seq![101u8, 114, 114, 111, 114, 45, 105, 110, 102, 111] { NameId::ErrorInfo }                            // "error-info"
    else if s =~= seq![114u8, 112, 99, 45, 114, 101, 112, 108, 121] { NameId::RpcReply }                                   // "rpc-reply"
    else { NameId::Other }
}

// ---------- shims ----------
pub mod rpc { pub struct Error { pub x: u8 } }     // (Item::RpcError of the shared prelude is unused here)
pub struct Infallible;
pub struct Utf8Error;
pub struct AttrError;
pub enum ReadError { Xml(XmlError), DecodeMessage(Utf8Error), UnexpectedXmlEvent(Event), NoMessageId, MissingElement, MessageIdParse(ParseIntError), UnknownErrorType, UnknownErrorTag, UnknownErrorSeverity, Other(BoxErr) }
impl ReadError {
    #[verifier::external_body]
    pub fn missing_element(msg_type: &str, element: &str) -> (r: ReadError) { unimplemented!() }
}
impl vstd::std_specs::convert::FromSpecImpl<XmlError> for ReadError { open spec fn obeys_from_spec() -> bool { true } open spec fn from_spec(e: XmlError) -> ReadError { ReadError::Xml(e) } }
impl From<XmlError> for ReadError { #[verifier::external_body] fn from(e: XmlError) -> (r: ReadError) { unimplemented!() } }
impl From<Utf8Error> for ReadError { #[verifier::external_body] fn from(e: Utf8Error) -> (r: ReadError) { unimplemented!() } }
impl From<AttrError> for ReadError { #[verifier::external_body] fn from(e: AttrError) -> (r: ReadError) { unimplemented!() } }
impl From<Infallible> for ReadError { #[verifier::external_body] fn from(e: Infallible) -> (r: ReadError) { unimplemented!() } }
pub struct FmtString;
#[verifier::external_body]
pub fn format_shim() -> (r: FmtString) { unimplemented!() }
#[derive(Clone, Copy)]
pub struct BoxErr;
impl From<FmtString> for BoxErr { #[verifier::external_body] fn from(s: FmtString) -> (r: BoxErr) { unimplemented!() } }
pub struct ArcStr;
impl From<&str> for ArcStr { #[verifier::external_body] fn from(s: &str) -> (r: ArcStr) { unimplemented!() } }

// std::str::FromStr, with a ghost flag saying whether the implementation accepts every string
pub trait FromStr: Sized {
    type Err;
    spec fn total() -> bool;
    fn from_str(s: &str) -> (r: Result<Self, Self::Err>)
        ensures Self::total() ==> r is Ok;
}
pub struct Trimmed { pub of: Ghost<Seq<u8>> }
impl CowStr {
    #[verifier::external_body]
    pub fn trim(&self) -> (r: Trimmed) ensures r.of@ == self.v@ { unimplemented!() }
}
impl Trimmed {
    // str::parse::<T>() == T::from_str(..)
    #[verifier::external_body]
    pub fn parse<T: FromStr>(&self) -> (r: Result<T, T::Err>) ensures T::total() ==> r is Ok { unimplemented!() }
}
pub struct Info { pub x: u8 }
impl Info {
    #[verifier::external_body]
    pub fn new() -> (r: Info) { unimplemented!() }
    // Info::read_xml: ASSUMED to consume the <error-info> subtree or fail (not yet under contract)
    #[verifier::external_body]
    pub fn read_xml(reader: &mut NsReader, start: &BytesStart) -> (r: Result<Info, ReadError>)
        ensures final(reader).remaining@.len() <= old(reader).remaining@.len()
    { unimplemented!() }
}

//@item file=netconf/src/message/rpc/error.rs kind=enum name=Type
//@item file=netconf/src/message/rpc/error.rs kind=enum name=Tag
//@item file=netconf/src/message/rpc/error.rs kind=enum name=Severity
//@item file=netconf/src/message/rpc/error.rs kind=struct name=AppTag sub=/Arc<str>=>ArcStr/
//@item file=netconf/src/message/rpc/error.rs kind=struct name=Path sub=/Arc<str>=>ArcStr/
//@item file=netconf/src/message/rpc/error.rs kind=struct name=Message sub=/Arc<str>=>ArcStr/
//@item file=netconf/src/message/rpc/error.rs kind=struct name=Error id=rpc_error_struct

// the three enumerations reject unknown words (an error, not a panic); their parsers are string matches (not under contract)
impl FromStr for Type { type Err = ReadError; open spec fn total() -> bool { false } #[verifier::external_body] fn from_str(s: &str) -> (r: Result<Self, ReadError>) { unimplemented!() } }
impl FromStr for Tag { type Err = ReadError; open spec fn total() -> bool { false } #[verifier::external_body] fn from_str(s: &str) -> (r: Result<Self, ReadError>) { unimplemented!() } }
impl FromStr for Severity { type Err = ReadError; open spec fn total() -> bool { false } #[verifier::external_body] fn from_str(s: &str) -> (r: Result<Self, ReadError>) { unimplemented!() } }

// C14: free-text leaves accept every string - that is what makes the `unreachable!()` after their `parse()` unreachable
impl FromStr for AppTag {
//@assoc file=netconf/src/message/rpc/error.rs impl=/impl FromStr for AppTag/ name=Err
    open spec fn total() -> bool { true }
//@extract id=app_tag_from_str file=netconf/src/message/rpc/error.rs impl=/impl FromStr for AppTag/ fn=from_str rules=R1
//@contract
        ensures res is Ok,                                                                   // OBL:C14.error.app_tag_accepts_every_string
//@end
}
impl FromStr for Path {
//@assoc file=netconf/src/message/rpc/error.rs impl=/impl FromStr for Path/ name=Err
    open spec fn total() -> bool { true }
//@extract id=path_from_str file=netconf/src/message/rpc/error.rs impl=/impl FromStr for Path/ fn=from_str rules=R1
//@contract
        ensures res is Ok,                                                                   // OBL:C14.error.path_accepts_every_string
//@end
}
impl FromStr for Message {
//@assoc file=netconf/src/message/rpc/error.rs impl=/impl FromStr for Message/ name=Err
    open spec fn total() -> bool { true }
//@extract id=message_from_str file=netconf/src/message/rpc/error.rs impl=/impl FromStr for Message/ fn=from_str rules=R1
//@contract
        ensures res is Ok,                                                                   // OBL:C14.error.message_accepts_every_string
//@end
}

impl Error {
//@extract id=rpc_error_read_xml file=netconf/src/message/rpc/error.rs impl=/impl ReadXml for Error/ fn=read_xml rules=R1,R2,R7,R11,R15,R17 r7map=option vis=pub
//@contract
        // C14: for every event sequence the reader terminates, reaches no panic / unreachable!(), and returns Ok or Err
        ensures res is Ok ==> final(reader).remaining@.len() <= old(reader).remaining@.len(),
//@loop 1
            invariant reader.remaining@.len() <= old(reader).remaining@.len(),
            decreases reader.remaining@.len(),                                                 // OBL:C14.error.read_xml_terminates
//@end
}

// ---------- first parse phase of a reply: only the message-id is extracted, the body is skipped ----------
pub struct MessageId { pub id: usize }
pub struct AttributeV { pub id: u64 }
impl MessageId {
    // TryFrom<Attribute>: unescape + usize::from_str
    #[verifier::external_body]
    pub fn try_from(a: AttributeV) -> (r: Result<MessageId, ReadError>) { unimplemented!() }
}
impl BytesStart {
    #[verifier::external_body]
    pub fn try_get_attribute(&self, name: &str) -> (r: Result<Option<AttributeV>, AttrError>) { unimplemented!() }
}
impl BytesText {
    // `&*txt == MARKER`
    #[verifier::external_body]
    pub fn is_marker(&self) -> (r: bool) { unimplemented!() }
}
pub struct BoxStr;
pub struct Utf8Str;
impl Utf8Str { #[verifier::external_body] pub fn into(self) -> (r: BoxStr) { unimplemented!() } }
impl NsReader { #[verifier::external_body] pub fn get_ref(&self) -> (r: &[u8]) { unimplemented!() } }
#[verifier::external_body]
pub fn from_utf8(b: &[u8]) -> (r: Result<Utf8Str, Utf8Error>) { unimplemented!() }
impl vstd::std_specs::convert::FromSpecImpl<Utf8Error> for ReadError { open spec fn obeys_from_spec() -> bool { true } open spec fn from_spec(e: Utf8Error) -> ReadError { ReadError::DecodeMessage(e) } }
impl vstd::std_specs::convert::FromSpecImpl<AttrError> for ReadError { open spec fn obeys_from_spec() -> bool { true } open spec fn from_spec(e: AttrError) -> ReadError { ReadError::Other(BoxErr) } }
//@item file=netconf/src/message/rpc/mod.rs kind=struct name=PartialReply sub=/pub(crate) =>pub ;Box<str>=>BoxStr/
pub const TAG_NS: Namespace = Namespace { id: 1 };
// R24: reached only if the code propagates read_to_end()'s error with `?`
#[verifier::external_body]
pub fn read_to_end_error_propagated()
    requires false,                                                                          // OBL:C14.partial_reply.body_errors_do_not_fail_phase_one
{ unimplemented!() }
impl PartialReply {
//@extract id=partial_reply_read_xml file=netconf/src/message/rpc/mod.rs impl=/impl ReadXml for PartialReply/ fn=read_xml rules=R1,R2,R24,R7,R11,R15,R17 r7map=option guardtry=read_to_end
//@+ sub=/Self::TAG_NS=>TAG_NS;;Self::TAG_NAME.as_bytes()=>b"rpc-reply";;&*txt == MARKER=>txt.is_marker()/
//@sig pub fn read_xml(reader: &mut NsReader, _start: &BytesStart) -> (res: Result<Self, ReadError>)
//@contract
        // C14: a damaged reply BODY must not make the first phase fail - the reply has to stay routable to the request it
        // answers, so that the task reading it off the transport (possibly another request's) is not the one that fails.
        // Hence an error reported while skipping the body is never what this function returns.
        ensures true,
//@loop 1
            invariant reader.remaining@.len() <= old(reader).remaining@.len(),
            decreases reader.remaining@.len(),                                                 // OBL:C14.partial_reply.terminates
//@end
}

// ---------- ServerMsg::from_xml: the top-level loop that every hello / reply parse goes through ----------
pub struct InputStr;
impl InputStr { #[verifier::external_body] pub fn as_ref(&self) -> (r: &str) { unimplemented!() } }
impl NsReader {
    // NsReader::from_str: a tokenizer over the message text; the events it will yield are arbitrary (ghost `remaining`)
    #[verifier::external_body]
    pub fn from_str(s: &str) -> (r: NsReader) { unimplemented!() }
    #[verifier::external_body]
    pub fn trim_text(&mut self, t: bool) -> (r: u8)
        ensures final(self).remaining@ == old(self).remaining@, final(self).log@ == old(self).log@
    { unimplemented!() }
}
// the message type's own reader (ReadXml::read_xml): ASSUMED to consume events or fail
pub trait MsgReadXml: Sized {
    fn read_xml(reader: &mut NsReader, start: &BytesStart) -> (r: Result<Self, ReadError>)
        ensures r is Ok ==> final(reader).remaining@.len() <= old(reader).remaining@.len();
}
pub const MSG_TAG_NS: Namespace = Namespace { id: 1 };
#[verifier::external_body]
pub fn msg_tag_name() -> (r: &'static [u8]) { unimplemented!() }
#[verifier::external_body]
pub fn msg_tag_str() -> (r: &'static str) { unimplemented!() }

//@extract id=server_msg_from_xml file=netconf/src/message/mod.rs impl=/trait ServerMsg/ fn=from_xml rules=R1,R2,R7,R15,R17 r7map=option
//@+ sub=/Self::TAG_NS=>MSG_TAG_NS;;Self::TAG_NAME.as_bytes()=>msg_tag_name();;&*txt == MARKER=>txt.is_marker();;Self::TAG_NAME=>msg_tag_str();;tag.local_name().as_ref() == msg_tag_name()=>bytes_eq(tag.local_name().as_ref(), msg_tag_name());;Self::read_xml=>M::read_xml/
//@sig pub fn from_xml<M: MsgReadXml>(input: InputStr) -> (res: Result<M, ReadError>)
//@contract
        // C14: whatever events the tokenizer yields for the server's bytes, the top-level loop terminates and returns Ok or Err
        ensures true,
//@loop 1
            invariant true,
            decreases reader.remaining@.len() + (if this is None { 1nat } else { 0nat }) as int,       // OBL:C14.from_xml.terminates
//@end

} // verus!
fn main() {}

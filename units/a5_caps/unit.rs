// Unit A5 — capability gates (C09) and hello / framing link (C12).
use vstd::prelude::*;
verus! {

// ---------- shims ----------
// (root level: deriving Structural inside a module trips a Verus internal error)
#[derive(PartialEq, Eq, Structural)]
pub struct Timeout(pub u64);                           // operation::Timeout(Duration), whole seconds
// a string, abstracted to an identifier (equal strings <=> equal ids); `==` is structural
#[derive(PartialEq, Eq, Structural, Clone, Copy)]
pub struct StrId { pub id: u64 }
pub uninterp spec fn str_prefix(p: StrId, s: StrId) -> bool;      // p is a prefix of s
pub uninterp spec fn str_contains(s: StrId, p: StrId) -> bool;
impl StrId {
    // str methods other than `==` that a scheme comparison might be written with: results are only constrained by
    // reflexivity, so code using them instead of `==` does not get the equality it needs
    #[verifier::external_body] pub fn starts_with(&self, p: StrId) -> (r: bool) ensures r == str_prefix(p, *self), p == *self ==> r { unimplemented!() }
    #[verifier::external_body] pub fn ends_with(&self, p: StrId) -> (r: bool) ensures p == *self ==> r { unimplemented!() }
    #[verifier::external_body] pub fn contains(&self, p: StrId) -> (r: bool) ensures r == str_contains(*self, p), p == *self ==> r { unimplemented!() }
    #[verifier::external_body] pub fn eq_ignore_ascii_case(&self, p: StrId) -> (r: bool) ensures p == *self ==> r { unimplemented!() }
    pub fn as_ref(&self) -> (r: StrId) ensures r == *self { *self }
}
pub struct BoxStr { pub s: StrId }          // Box<str>
impl BoxStr { pub fn as_ref(&self) -> (r: StrId) ensures r == self.s { self.s } }
pub struct UrlSchemes { pub list: Vec<BoxStr> }     // Vec<Box<str>>: the schemes of a :url capability
pub open spec fn schemes_contain(u: UrlSchemes, scheme: StrId) -> bool { exists|i: int| 0 <= i < u.list@.len() && (#[trigger] u.list@[i]).s == scheme }
pub struct SchemeIter<'a> { pub all: &'a Vec<BoxStr>, pub pos: usize }
impl UrlSchemes {
    // slice::iter
    pub fn iter(&self) -> (r: SchemeIter<'_>) ensures r.all == &self.list, r.pos == 0 { SchemeIter { all: &self.list, pos: 0 } }
}
impl<'a> SchemeIter<'a> {
    pub fn next(&mut self) -> (r: Option<&'a BoxStr>)
        requires old(self).pos <= old(self).all@.len(),
        ensures final(self).all == old(self).all, final(self).pos <= final(self).all@.len(),
            match r { Some(b) => old(self).pos < old(self).all@.len() && *b == old(self).all@[old(self).pos as int] && final(self).pos == old(self).pos + 1,
                      None => old(self).pos == old(self).all@.len() && final(self).pos == old(self).pos }
    {
        if self.pos < self.all.len() { let b = &self.all[self.pos]; self.pos = self.pos + 1; Some(b) } else { None }
    }
}
pub struct UnknownUri { pub id: u64 }     // Arc<UriStr>
//@item file=netconf/src/capabilities.rs kind=enum name=Base
//@item file=netconf/src/capabilities.rs kind=enum name=Capability sub=/Url(Vec<Box<str>>)=>Url(UrlSchemes);Unknown(Arc<UriStr>)=>Unknown(UnknownUri)/
//@item file=netconf/src/capabilities.rs kind=enum name=Requirements

// Capabilities { inner: HashSet<Capability> }: the advertised set (ghost); contains() = set membership (ASSUMED: std HashSet)
pub struct Capabilities { pub set: Ghost<Set<Capability>> }
impl Capabilities {
    #[verifier::external_body]
    pub fn contains(&self, elem: &Capability) -> (r: bool) ensures r == self.set@.contains(*elem) { unimplemented!() }
}
// Capabilities::iter() = HashSet::iter(): every element of the set exactly once, in an ARBITRARY order (the listing is
// existentially chosen by the shim; everything proved holds for every order)
pub struct CapIter<'a> { pub elems: Ghost<Seq<Capability>>, pub pos: Ghost<int>, pub _p: core::marker::PhantomData<&'a Capability> }
impl Capabilities {
    #[verifier::external_body]
    pub fn iter<'a>(&'a self) -> (r: CapIter<'a>)
        ensures r.pos@ == 0, forall|c: Capability| #[trigger] r.elems@.contains(c) <==> self.set@.contains(c)
    { unimplemented!() }
}
impl<'a> CapIter<'a> {
    #[verifier::external_body]
    pub fn next(&mut self) -> (r: Option<&'a Capability>)
        requires 0 <= old(self).pos@ <= old(self).elems@.len(),
        ensures final(self).elems@ == old(self).elems@, 0 <= final(self).pos@ <= final(self).elems@.len(),
            match r { Some(c) => old(self).pos@ < old(self).elems@.len() && *c == old(self).elems@[old(self).pos@] && final(self).pos@ == old(self).pos@ + 1,
                      None => old(self).pos@ == old(self).elems@.len() && final(self).pos@ == old(self).pos@ }
    { unimplemented!() }
}
// session::Context: only the server capabilities matter here
pub struct Context { pub server_capabilities: Capabilities }
impl Context {
//@extract id=ctx_server_capabilities file=netconf/src/session.rs impl=/^impl Context/ fn=server_capabilities rules=R1 vis=pub
//@contract
        ensures res == &self.server_capabilities,
//@end
}
// what Requirements::check must compute
pub open spec fn any_in(cs: Seq<Capability>, caps: Set<Capability>) -> bool { exists|i: int| 0 <= i < cs.len() && caps.contains(#[trigger] cs[i]) }
pub open spec fn all_in(cs: Seq<Capability>, caps: Set<Capability>) -> bool { forall|i: int| 0 <= i < cs.len() ==> caps.contains(#[trigger] cs[i]) }
pub open spec fn req_sat(r: Requirements, caps: Set<Capability>) -> bool {
    match r {
        Requirements::None => true,
        Requirements::One(c) => caps.contains(c),
        Requirements::Any(cs) => any_in(cs@, caps),
        Requirements::All(cs) => all_in(cs@, caps),
    }
}
impl Requirements {
//@extract id=requirements_check file=netconf/src/capabilities.rs impl=/^impl Requirements/ fn=check rules=R1,R19 r19kind=slice vis=pub
//@contract
        ensures res == req_sat(*self, capabilities.set@),                                    // OBL:C09.requirements.check_computes_requirement
//@loop 1
                invariant_except_break !r__0,
                invariant
                    s__0@ == requirements@, 0 <= i__0 <= s__0@.len(),
                    forall|j: int| 0 <= j < i__0 ==> !capabilities.set@.contains(#[trigger] requirements@[j]),
                ensures r__0 <==> any_in(requirements@, capabilities.set@),
                decreases s__0@.len() - i__0,
//@loop 2
                invariant_except_break r__1,
                invariant
                    s__1@ == requirements@, 0 <= i__1 <= s__1@.len(),
                    forall|j: int| 0 <= j < i__1 ==> capabilities.set@.contains(#[trigger] requirements@[j]),
                ensures r__1 <==> all_in(requirements@, capabilities.set@),
                decreases s__1@.len() - i__1,
//@end
}

// Any(&[a, b]) / All(&[a, b]) over a two-element static list (the only shapes the code uses), unfolded
pub broadcast proof fn lemma_req_any_pair(cs: &'static [Capability], caps: Set<Capability>)
    requires cs@.len() == 2,
    ensures #[trigger] req_sat(Requirements::Any(cs), caps) <==> (caps.contains(cs@[0]) || caps.contains(cs@[1])),
{
    if caps.contains(cs@[0]) { assert(0 <= 0 < cs@.len() && caps.contains(cs@[0])); }
    if caps.contains(cs@[1]) { assert(0 <= 1 < cs@.len() && caps.contains(cs@[1])); }
    if req_sat(Requirements::Any(cs), caps) {
        let s = cs@;
        let i = choose|i: int| 0 <= i < s.len() && caps.contains(#[trigger] s[i]);
        assert(i == 0 || i == 1);
    }
}
pub broadcast proof fn lemma_req_all_pair(cs: &'static [Capability], caps: Set<Capability>)
    requires cs@.len() == 2,
    ensures #[trigger] req_sat(Requirements::All(cs), caps) <==> (caps.contains(cs@[0]) && caps.contains(cs@[1])),
{
    if req_sat(Requirements::All(cs), caps) { assert(caps.contains(cs@[0])); assert(caps.contains(cs@[1])); }
    if caps.contains(cs@[0]) && caps.contains(cs@[1]) {
        assert forall|i: int| 0 <= i < cs@.len() implies caps.contains(#[trigger] cs@[i]) by { assert(i == 0 || i == 1); }
    }
}

pub mod operation {
use super::*;
broadcast use {lemma_req_any_pair, lemma_req_all_pair};

pub struct UriError;
pub struct ArcUri { pub id: u64 }        // Arc<UriStr>
impl From<UriError> for Error { #[verifier::external_body] fn from(e: UriError) -> (r: Error) { unimplemented!() } }
// crate::Error: the variants the gates construct (data carriers only)
pub enum Error {
    UnsupportedSource { datastore: Datastore, required_capabilities: Requirements },
    UnsupportedTarget { datastore: Datastore, required_capabilities: Requirements },
    UnsupportedLockTarget { datastore: Datastore, required_capabilities: Requirements },
    UnsupportedFilterType { filter: &'static str, required_capabilities: Requirements },
    UnsupportedOperParameterValue { operation_name: &'static str, param_name: &'static str, param_value: &'static str, required_capabilities: Requirements },
    UnsupportedOperationParameter { operation_name: &'static str, param_name: &'static str, required_capabilities: Requirements },
    IncompatibleOperationParameters { operation_name: &'static str, parameters: Vec<&'static str> },
    UnsupportedOperation { operation_name: &'static str, required_capabilities: Requirements },
    UnsupportedUrlScheme { url: ArcUri },
    Uri(UriError),
    DeleteRunningConfig,
    Other,
}


// ---------- spec: RFC 6241 section 8, written from the RFC (not from the code) ----------
pub open spec fn has(caps: Set<Capability>, c: Capability) -> bool { caps.contains(c) }
// 8.3 :candidate, 8.7 :startup — <running> is always a valid source
pub open spec fn permitted_source(ds: Datastore, caps: Set<Capability>) -> bool {
    match ds { Datastore::Running => true, Datastore::Candidate => has(caps, Capability::Candidate), Datastore::Startup => has(caps, Capability::Startup) }
}
// 8.2 :writable-running — <running> as a <target> only with it
pub open spec fn permitted_target(ds: Datastore, caps: Set<Capability>) -> bool {
    match ds { Datastore::Running => has(caps, Capability::WritableRunning), Datastore::Candidate => has(caps, Capability::Candidate), Datastore::Startup => has(caps, Capability::Startup) }
}
// 7.5 <lock>: <running> can always be locked
pub open spec fn permitted_lock_target(ds: Datastore, caps: Set<Capability>) -> bool {
    match ds { Datastore::Running => true, Datastore::Candidate => has(caps, Capability::Candidate), Datastore::Startup => has(caps, Capability::Startup) }
}
// 8.9 :xpath — subtree filtering is part of the base protocol
pub open spec fn permitted_filter(f: Filter, caps: Set<Capability>) -> bool {
    match f { Filter::Subtree(_) => true, Filter::XPath(_) => has(caps, Capability::XPath) }
}
// 8.6 :validate — <test-option> needs :validate (1.0 or 1.1); test-only needs :validate:1.1
pub open spec fn permitted_test_option(t: TestOption, caps: Set<Capability>) -> bool {
    match t { TestOption::TestThenSet | TestOption::Set => has(caps, Capability::ValidateV1_0) || has(caps, Capability::ValidateV1_1),
              TestOption::TestOnly => has(caps, Capability::ValidateV1_1) }
}
// 8.5 :rollback-on-error
pub open spec fn permitted_error_option(e: ErrorOption, caps: Set<Capability>) -> bool {
    match e { ErrorOption::StopOnError | ErrorOption::ContinueOnError => true, ErrorOption::RollbackOnError => has(caps, Capability::RollbackOnError) }
}
// 8.4 :confirmed-commit — <confirmed>/<confirm-timeout> need 1.0 or 1.1; <persist>/<persist-id> need 1.1
pub open spec fn permitted_confirmed(caps: Set<Capability>) -> bool { has(caps, Capability::ConfirmedCommitV1_0) || has(caps, Capability::ConfirmedCommitV1_1) }
pub open spec fn permitted_persist(caps: Set<Capability>) -> bool { has(caps, Capability::ConfirmedCommitV1_1) }


//@item file=netconf/src/message/rpc/operation/mod.rs kind=enum name=Datastore
impl Datastore {
//@extract id=datastore_try_as_source file=netconf/src/message/rpc/operation/mod.rs impl=/^impl Datastore/ fn=try_as_source rules=R1 vis=pub
//@contract
        ensures
            res is Ok <==> permitted_source(self, ctx.server_capabilities.set@),            // OBL:C09.datastore.source_iff_permitted
            res matches Ok(v) ==> v == self,
//@end
//@extract id=datastore_try_as_target file=netconf/src/message/rpc/operation/mod.rs impl=/^impl Datastore/ fn=try_as_target rules=R1 vis=pub
//@contract
        ensures
            res is Ok <==> permitted_target(self, ctx.server_capabilities.set@),            // OBL:C09.datastore.target_iff_permitted
            res matches Ok(v) ==> v == self,
//@end
//@extract id=datastore_try_as_lock_target file=netconf/src/message/rpc/operation/mod.rs impl=/^impl Datastore/ fn=try_as_lock_target rules=R1 vis=pub
//@contract
        ensures
            res is Ok <==> permitted_lock_target(self, ctx.server_capabilities.set@),       // OBL:C09.datastore.lock_target_iff_permitted
            res matches Ok(v) ==> v == self,
//@end
}

//@item file=netconf/src/message/rpc/operation/mod.rs kind=enum name=Filter
impl Filter {
//@extract id=filter_as_str file=netconf/src/message/rpc/operation/mod.rs impl=/^impl Filter/ fn=as_str rules=R1 vis=pub
//@end
//@extract id=filter_try_use file=netconf/src/message/rpc/operation/mod.rs impl=/^impl Filter/ fn=try_use rules=R1 vis=pub
//@contract
        ensures
            res is Ok <==> permitted_filter(self, ctx.server_capabilities.set@),            // OBL:C09.filter.iff_permitted
            res matches Ok(v) ==> v == self,
//@end
}

pub const EDIT_CONFIG_NAME: &'static str = "edit-config";
//@item file=netconf/src/message/rpc/operation/edit_config.rs kind=enum name=TestOption
impl TestOption {
//@extract id=test_option_as_str file=netconf/src/message/rpc/operation/edit_config.rs impl=/^impl TestOption/ fn=as_str rules=R1 vis=pub
//@end
//@extract id=test_option_try_use file=netconf/src/message/rpc/operation/edit_config.rs impl=/^impl TestOption/ fn=try_use rules=R1 vis=pub
//@+ sub=/EditConfig::<D>::NAME=>EDIT_CONFIG_NAME/
//@sig pub fn try_use(self, ctx: &Context) -> (res: Result<Self, Error>)
//@contract
        ensures
            res is Ok <==> permitted_test_option(self, ctx.server_capabilities.set@),       // OBL:C09.test_option.iff_permitted
            res matches Ok(v) ==> v == self,
//@end
}
//@item file=netconf/src/message/rpc/operation/edit_config.rs kind=enum name=ErrorOption
impl ErrorOption {
//@extract id=error_option_as_str file=netconf/src/message/rpc/operation/edit_config.rs impl=/^impl ErrorOption/ fn=as_str rules=R1 vis=pub
//@end
//@extract id=error_option_try_use file=netconf/src/message/rpc/operation/edit_config.rs impl=/^impl ErrorOption/ fn=try_use rules=R1 vis=pub
//@+ sub=/EditConfig::<D>::NAME=>EDIT_CONFIG_NAME/
//@sig pub fn try_use(self, ctx: &Context) -> (res: Result<Self, Error>)
//@contract
        ensures
            res is Ok <==> permitted_error_option(self, ctx.server_capabilities.set@),      // OBL:C09.error_option.iff_permitted
            res matches Ok(v) ==> v == self,
//@end
}

// ---------- builders: everything stored in a builder / operation is permitted by the advertised capabilities ----------
pub struct OpaqueReply;
//@item file=netconf/src/message/rpc/operation/params.rs kind=struct name=Required sub=/pub(super) =>pub ;value:=>pub value:/
impl<T> Required<T> {
//@extract id=required_init file=netconf/src/message/rpc/operation/params.rs impl=/impl<T> Required<T>/ fn=init rules=R1 vis=pub
//@contract
        ensures res.value is None,
//@end
//@extract id=required_set file=netconf/src/message/rpc/operation/params.rs impl=/impl<T> Required<T>/ fn=set rules=R1 vis=pub
//@contract
        ensures final(self).value == Some(value),
//@end
    // Required::require::<O>(name): Some(v) -> Ok(v), None -> Err(missing parameter)   (generic over the Operation trait: shim)
    #[verifier::external_body]
    pub fn require(self, param_name: &'static str) -> (r: Result<T, Error>)
        ensures match self.value { Some(v) => r == Ok::<T, Error>(v), None => r is Err }
    { unimplemented!() }
}

pub mod get {
use super::*;
//@item file=netconf/src/message/rpc/operation/get.rs kind=struct name=Get sub=/filter:=>pub filter:/
//@item file=netconf/src/message/rpc/operation/get.rs kind=struct name=Builder sub=/ctx:=>pub ctx:;filter:=>pub filter:/
pub open spec fn inv(b: Builder) -> bool { b.filter matches Some(f) ==> permitted_filter(f, b.ctx.server_capabilities.set@) }
impl<'a> Builder<'a> {
//@extract id=get_builder_filter file=netconf/src/message/rpc/operation/get.rs impl=/^impl Builder<'_>/ fn=filter rules=R1,R7,R16,R17 r7map=option vis=pub
//@contract
        requires inv(self),
        ensures
            res is Ok <==> (filter matches Some(f) ==> permitted_filter(f, self.ctx.server_capabilities.set@)),   // OBL:C09.get.filter_iff_permitted
            res matches Ok(b) ==> inv(b) && b.filter == filter && b.ctx == self.ctx,                               // OBL:C09.get.builder_holds_only_permitted
//@end
//@extract id=get_builder_new file=netconf/src/message/rpc/operation/get.rs impl=/Builder<'a, Get> for Builder<'a>/ fn=new rules=R1 vis=pub
//@contract
        ensures inv(res), res.ctx == ctx,
//@end
//@extract id=get_builder_finish file=netconf/src/message/rpc/operation/get.rs impl=/Builder<'a, Get> for Builder<'a>/ fn=finish rules=R1 vis=pub
//@contract
        requires inv(self),
        ensures res matches Ok(op) && (op.filter matches Some(f) ==> permitted_filter(f, self.ctx.server_capabilities.set@)),   // OBL:C09.get.request_uses_only_permitted
//@end
}
}

pub mod get_config {
use super::*;
pub struct PhantomData<D> { pub _d: core::marker::PhantomData<D> }
//@item file=netconf/src/message/rpc/operation/get_config.rs kind=struct name=GetConfig sub=/source:=>pub source:;filter:=>pub filter:;_reply: PhantomData<D>=>pub _reply: core::marker::PhantomData<D>/
//@item file=netconf/src/message/rpc/operation/get_config.rs kind=struct name=Builder sub=/ctx:=>pub ctx:;filter:=>pub filter:;source:=>pub source:/
pub open spec fn inv(b: Builder) -> bool {
    &&& b.filter matches Some(f) ==> permitted_filter(f, b.ctx.server_capabilities.set@)
    &&& b.source.value matches Some(ds) ==> permitted_source(ds, b.ctx.server_capabilities.set@)
}
impl<'a> Builder<'a> {
//@extract id=get_config_builder_source file=netconf/src/message/rpc/operation/get_config.rs impl=/^impl Builder<'_>/ fn=source rules=R1,R7,R16,R17 r7map=result vis=pub
//@contract
        requires inv(self),
        ensures
            res is Ok <==> permitted_source(source, self.ctx.server_capabilities.set@),                            // OBL:C09.get_config.source_iff_permitted
            res matches Ok(b) ==> inv(b) && b.source.value == Some(source) && b.filter == self.filter && b.ctx == self.ctx,  // OBL:C09.get_config.builder_holds_only_permitted
//@end
//@extract id=get_config_builder_filter file=netconf/src/message/rpc/operation/get_config.rs impl=/^impl Builder<'_>/ fn=filter rules=R1,R7,R16,R17 r7map=option vis=pub
//@contract
        requires inv(self),
        ensures
            res is Ok <==> (filter matches Some(f) ==> permitted_filter(f, self.ctx.server_capabilities.set@)),   // OBL:C09.get_config.filter_iff_permitted
            res matches Ok(b) ==> inv(b) && b.filter == filter && b.source == self.source && b.ctx == self.ctx,
//@end
//@extract id=get_config_builder_new file=netconf/src/message/rpc/operation/get_config.rs impl=/Builder<'a, GetConfig<D>> for Builder<'a>/ fn=new rules=R1 vis=pub
//@contract
        ensures inv(res), res.ctx == ctx,
//@end
//@extract id=get_config_builder_finish file=netconf/src/message/rpc/operation/get_config.rs impl=/Builder<'a, GetConfig<D>> for Builder<'a>/ fn=finish rules=R1 vis=pub
//@+ sub=/require::<GetConfig<D>>=>require;;_reply: PhantomData=>_reply: core::marker::PhantomData/
//@sig pub fn finish<D>(self) -> (res: Result<GetConfig<D>, Error>)
//@contract
        requires inv(self),
        ensures res matches Ok(op) ==> permitted_source(op.source, self.ctx.server_capabilities.set@)
                && (op.filter matches Some(f) ==> permitted_filter(f, self.ctx.server_capabilities.set@)),         // OBL:C09.get_config.request_uses_only_permitted
//@end
}
}

pub mod commit {
use super::*;
pub struct Duration { pub secs: u64 }
pub struct Token { pub id: u64 }                       // Token { inner: Arc<str> }
pub use crate::Timeout;
impl Timeout { pub fn default() -> (r: Timeout) ensures r == Timeout(600) { Timeout(600) } }
#[verifier::external_body]
pub fn timeout_of(d: Duration) -> (r: Timeout) ensures r == Timeout(d.secs) { unimplemented!() }
pub const COMMIT_NAME: &'static str = "commit";
#[verifier::external_body]
pub fn vec2(a: &'static str, b: &'static str) -> (r: Vec<&'static str>) { unimplemented!() }

//@item file=netconf/src/message/rpc/operation/commit.rs kind=struct name=Commit sub=/confirmed: bool=>pub confirmed: bool;confirm_timeout:=>pub confirm_timeout:;persist:=>pub persist:;persist_id:=>pub persist_id:/
//@item file=netconf/src/message/rpc/operation/commit.rs kind=struct name=Builder sub=/ctx:=>pub ctx:;confirmed: bool=>pub confirmed: bool;confirm_timeout:=>pub confirm_timeout:;persist:=>pub persist:;persist_id:=>pub persist_id:/

// RFC 6241 8.4: <confirmed> and <confirm-timeout> need :confirmed-commit (1.0 or 1.1); <persist> and <persist-id> need 1.1
pub open spec fn inv(b: Builder) -> bool {
    let caps = b.ctx.server_capabilities.set@;
    &&& (b.confirmed || b.confirm_timeout != Timeout(600)) ==> permitted_confirmed(caps)
    &&& (b.persist is Some || b.persist_id is Some) ==> permitted_persist(caps)
}
pub open spec fn commit_permitted(op: Commit, caps: Set<Capability>) -> bool {
    &&& (op.confirmed || op.confirm_timeout != Timeout(600)) ==> permitted_confirmed(caps)
    &&& (op.persist is Some || op.persist_id is Some) ==> permitted_persist(caps)
}
impl<'a> Builder<'a> {
//@extract id=commit_try_use file=netconf/src/message/rpc/operation/commit.rs impl=/^impl Builder<'_>/ fn=try_use rules=R1,R7,R17 vis=pub
//@+ sub=/Commit::NAME=>COMMIT_NAME/
//@contract
        ensures res is Ok <==> req_sat(required_capabilities, self.ctx.server_capabilities.set@),        // OBL:C09.commit.try_use_iff_requirement
//@end
//@extract id=commit_try_use_confirmed file=netconf/src/message/rpc/operation/commit.rs impl=/^impl Builder<'_>/ fn=try_use_confirmed rules=R1 vis=pub
//@contract
        ensures res is Ok <==> permitted_confirmed(self.ctx.server_capabilities.set@),                   // OBL:C09.commit.confirmed_iff_permitted
//@end
//@extract id=commit_try_use_persist file=netconf/src/message/rpc/operation/commit.rs impl=/^impl Builder<'_>/ fn=try_use_persist rules=R1 vis=pub
//@contract
        ensures res is Ok <==> permitted_persist(self.ctx.server_capabilities.set@),                     // OBL:C09.commit.persist_iff_permitted
//@end
//@extract id=commit_confirmed file=netconf/src/message/rpc/operation/commit.rs impl=/^impl Builder<'_>/ fn=confirmed rules=R1,R7,R16,R17 r7map=result vis=pub
//@contract
        requires inv(self),
        ensures res is Ok <==> permitted_confirmed(self.ctx.server_capabilities.set@),
                res matches Ok(b) ==> inv(b) && b.ctx == self.ctx,                                        // OBL:C09.commit.builder_holds_only_permitted
//@end
//@extract id=commit_confirm_timeout file=netconf/src/message/rpc/operation/commit.rs impl=/^impl Builder<'_>/ fn=confirm_timeout rules=R1,R7,R16,R17 r7map=result vis=pub
//@+ sub=/Timeout(timeout)=>timeout_of(timeout)/
//@contract
        requires inv(self),
        ensures res is Ok <==> permitted_confirmed(self.ctx.server_capabilities.set@),
                res matches Ok(b) ==> inv(b) && b.ctx == self.ctx,                                        // OBL:C09.commit.builder_holds_only_permitted
//@end
//@extract id=commit_persist file=netconf/src/message/rpc/operation/commit.rs impl=/^impl Builder<'_>/ fn=persist rules=R1,R7,R16,R17 r7map=result vis=pub
//@contract
        requires inv(self),
        ensures res is Ok <==> permitted_persist(self.ctx.server_capabilities.set@),                      // OBL:C09.commit.persist_needs_confirmed_commit_1_1
                res matches Ok(b) ==> inv(b) && b.ctx == self.ctx,                                        // OBL:C09.commit.builder_holds_only_permitted
//@end
//@extract id=commit_persist_id file=netconf/src/message/rpc/operation/commit.rs impl=/^impl Builder<'_>/ fn=persist_id rules=R1,R7,R16,R17 r7map=result vis=pub
//@contract
        requires inv(self),
        ensures res is Ok <==> permitted_persist(self.ctx.server_capabilities.set@),                      // OBL:C09.commit.persist_id_needs_confirmed_commit_1_1
                res matches Ok(b) ==> inv(b) && b.ctx == self.ctx,                                        // OBL:C09.commit.builder_holds_only_permitted
//@end
//@extract id=commit_builder_new file=netconf/src/message/rpc/operation/commit.rs impl=/Builder<'a, Commit> for Builder<'a>/ fn=new rules=R1 vis=pub
//@contract
        ensures inv(res), res.ctx == ctx,
//@end
//@extract id=commit_builder_finish file=netconf/src/message/rpc/operation/commit.rs impl=/Builder<'a, Commit> for Builder<'a>/ fn=finish rules=R1 vis=pub
//@+ sub=/Commit::NAME=>COMMIT_NAME;;vec!["confirmed = true", "persist-id"]=>vec2("confirmed = true", "persist-id");;vec!["confirmed = false", "persist"]=>vec2("confirmed = false", "persist")/
//@contract
        requires inv(self),
        ensures res matches Ok(op) ==> commit_permitted(op, self.ctx.server_capabilities.set@),           // OBL:C09.commit.request_uses_only_permitted
//@end
}
}

pub mod lock {
use super::*;
//@item file=netconf/src/message/rpc/operation/lock.rs kind=struct name=Lock sub=/target:=>pub target:/
//@item file=netconf/src/message/rpc/operation/lock.rs kind=struct name=Unlock sub=/target:=>pub target:/
//@item file=netconf/src/message/rpc/operation/lock.rs kind=struct name=Builder sub=/ctx:=>pub ctx:;target:=>pub target:/
pub open spec fn inv(b: Builder) -> bool { b.target.value matches Some(ds) ==> permitted_lock_target(ds, b.ctx.server_capabilities.set@) }
impl<'a> Builder<'a> {
//@extract id=lock_builder_target file=netconf/src/message/rpc/operation/lock.rs impl=/^impl<'a> Builder<'a>/ fn=target rules=R1,R7,R16,R17 r7map=result vis=pub
//@contract
        requires inv(self),
        ensures res is Ok <==> permitted_lock_target(target, self.ctx.server_capabilities.set@),     // OBL:C09.lock.target_iff_permitted
                res matches Ok(b) ==> inv(b) && b.target.value == Some(target) && b.ctx == self.ctx, // OBL:C09.lock.builder_holds_only_permitted
//@end
//@extract id=lock_builder_new file=netconf/src/message/rpc/operation/lock.rs impl=/^impl<'a> Builder<'a>/ fn=new rules=R1 vis=pub
//@contract
        ensures inv(res), res.ctx == ctx, res.target.value is None,
//@end
//@extract id=lock_builder_finish file=netconf/src/message/rpc/operation/lock.rs impl=/Builder<'a, Lock> for Builder<'a>/ fn=finish rules=R1 vis=pub
//@+ sub=/require::<Lock>=>require/
//@contract
        requires inv(self),
        ensures res matches Ok(op) ==> permitted_lock_target(op.target, self.ctx.server_capabilities.set@),   // OBL:C09.lock.request_uses_only_permitted
                res is Ok <==> self.target.value is Some,                                                   // OBL:C09.lock.complete_request_is_built
//@end
//@extract id=unlock_builder_finish file=netconf/src/message/rpc/operation/lock.rs impl=/Builder<'a, Unlock> for Builder<'a>/ fn=finish rules=R1 vis=pub rename=finish_unlock
//@+ sub=/require::<Unlock>=>require/
//@contract
        requires inv(self),
        ensures res matches Ok(op) ==> permitted_lock_target(op.target, self.ctx.server_capabilities.set@),   // OBL:C09.unlock.request_uses_only_permitted
                res is Ok <==> self.target.value is Some,                                                   // OBL:C09.unlock.complete_request_is_built
//@end
}
}

pub mod copy_config {
use super::*;
pub struct StringV { pub id: u64 }
//@item file=netconf/src/message/rpc/operation/copy_config.rs kind=enum name=Target sub=/enum Target=>pub enum Target/
//@item file=netconf/src/message/rpc/operation/mod.rs kind=enum name=Source sub=/Config(String)=>Config(StringV);Url(Url)=>Url(super::url::Url)/
//@item file=netconf/src/message/rpc/operation/copy_config.rs kind=struct name=CopyConfig sub=/target:=>pub target:;source:=>pub source:/
pub open spec fn op_permitted_items(op: CopyConfig, caps: Set<Capability>) -> bool {
    &&& op.target matches Target::Datastore(ds) ==> permitted_target(ds, caps)
    &&& op.source matches Source::Datastore(ds) ==> permitted_source(ds, caps)
}
//@item file=netconf/src/message/rpc/operation/copy_config.rs kind=struct name=Builder sub=/ctx:=>pub ctx:;target:=>pub target:;source:=>pub source:/
pub open spec fn inv(b: Builder) -> bool {
    &&& b.target.value matches Some(Target::Datastore(ds)) ==> permitted_target(ds, b.ctx.server_capabilities.set@)
    &&& b.source.value matches Some(Source::Datastore(ds)) ==> permitted_source(ds, b.ctx.server_capabilities.set@)
}
impl<'a> Builder<'a> {
//@extract id=copy_config_builder_target file=netconf/src/message/rpc/operation/copy_config.rs impl=/^impl Builder<'_>/ fn=target rules=R1,R7,R16,R17 r7map=result vis=pub
//@contract
        requires inv(self),
        ensures res is Ok <==> permitted_target(target, self.ctx.server_capabilities.set@),          // OBL:C09.copy_config.target_iff_permitted
                res matches Ok(b) ==> inv(b) && b.ctx == self.ctx,                                   // OBL:C09.copy_config.builder_holds_only_permitted
                res matches Ok(b) ==> b.target.value == Some(Target::Datastore(target)) && b.source == self.source,   // OBL:C09.copy_config.target_is_recorded
//@end
//@extract id=copy_config_builder_source file=netconf/src/message/rpc/operation/copy_config.rs impl=/^impl Builder<'_>/ fn=source rules=R1,R7,R16,R17 r7map=result vis=pub
//@contract
        requires inv(self),
        ensures res is Ok <==> permitted_source(source, self.ctx.server_capabilities.set@),          // OBL:C09.copy_config.source_iff_permitted
                res matches Ok(b) ==> inv(b) && b.ctx == self.ctx,                                   // OBL:C09.copy_config.builder_holds_only_permitted
                res matches Ok(b) ==> b.source.value == Some(Source::Datastore(source)) && b.target == self.target,   // OBL:C09.copy_config.source_is_recorded
//@end
//@extract id=copy_config_builder_new file=netconf/src/message/rpc/operation/copy_config.rs impl=/Builder<'a, CopyConfig> for Builder<'a>/ fn=new rules=R1 vis=pub
//@contract
        ensures inv(res), res.ctx == ctx, res.target.value is None, res.source.value is None,
//@end
//@extract id=copy_config_builder_finish file=netconf/src/message/rpc/operation/copy_config.rs impl=/Builder<'a, CopyConfig> for Builder<'a>/ fn=finish rules=R1 vis=pub
//@+ sub=/require::<CopyConfig>=>require/
//@contract
        requires inv(self),
        ensures res matches Ok(op) ==> op_permitted_items(op, self.ctx.server_capabilities.set@),            // OBL:C09.copy_config.request_uses_only_permitted
                res is Ok <==> self.target.value is Some && self.source.value is Some,                       // OBL:C09.copy_config.complete_request_is_built
//@end
}
}

pub mod validate {
use super::*;
pub use super::copy_config::{Source, StringV};
//@item file=netconf/src/message/rpc/operation/validate.rs kind=struct name=Validate sub=/source:=>pub source:/
//@item file=netconf/src/message/rpc/operation/validate.rs kind=struct name=Builder sub=/ctx:=>pub ctx:;source:=>pub source:/
pub open spec fn inv(b: Builder) -> bool { b.source.value matches Some(Source::Datastore(ds)) ==> permitted_source(ds, b.ctx.server_capabilities.set@) }
impl<'a> Builder<'a> {
//@extract id=validate_builder_source file=netconf/src/message/rpc/operation/validate.rs impl=/^impl Builder<'_>/ fn=source rules=R1,R7,R16,R17 r7map=result vis=pub
//@contract
        requires inv(self),
        ensures res is Ok <==> permitted_source(source, self.ctx.server_capabilities.set@),          // OBL:C09.validate.source_iff_permitted
                res matches Ok(b) ==> inv(b) && b.ctx == self.ctx,                                   // OBL:C09.validate.builder_holds_only_permitted
                res matches Ok(b) ==> b.source.value == Some(Source::Datastore(source)),             // OBL:C09.validate.source_is_recorded
//@end
//@extract id=validate_builder_new file=netconf/src/message/rpc/operation/validate.rs impl=/Builder<'a, Validate> for Builder<'a>/ fn=new rules=R1 vis=pub
//@contract
        ensures inv(res), res.ctx == ctx, res.source.value is None,
//@end
//@extract id=validate_builder_finish file=netconf/src/message/rpc/operation/validate.rs impl=/Builder<'a, Validate> for Builder<'a>/ fn=finish rules=R1 vis=pub
//@+ sub=/require::<Validate>=>require/
//@contract
        requires inv(self),
        ensures res matches Ok(op) ==> (op.source matches Source::Datastore(ds) ==> permitted_source(ds, self.ctx.server_capabilities.set@)),   // OBL:C09.validate.request_uses_only_permitted
                res is Ok <==> self.source.value is Some,                                              // OBL:C09.validate.complete_request_is_built
//@end
}
}

pub mod cancel_commit {
use super::*;
pub struct Token { pub id: u64 }
pub const CANCEL_COMMIT_NAME: &'static str = "cancel-commit";
//@item file=netconf/src/message/rpc/operation/cancel_commit.rs kind=struct name=Builder sub=/ctx:=>pub ctx:;persist_id:=>pub persist_id:/
impl<'a> Builder<'a> {
//@extract id=cancel_commit_builder_persist_id file=netconf/src/message/rpc/operation/cancel_commit.rs impl=/^impl Builder<'_>/ fn=persist_id rules=R1,R16,R17 vis=pub
//@+ sub=/CancelCommit::NAME=>CANCEL_COMMIT_NAME/
//@contract
        ensures res is Ok <==> permitted_persist(self.ctx.server_capabilities.set@),                 // OBL:C09.cancel_commit.persist_id_needs_confirmed_commit_1_1
                res matches Ok(b) ==> b.persist_id == token && b.ctx == self.ctx,
//@end
}
}

pub mod edit_config {
use super::*;
pub use super::url::Url;
//@item file=netconf/src/message/rpc/operation/edit_config.rs kind=enum name=Source
//@item file=netconf/src/message/rpc/operation/edit_config.rs kind=enum name=DefaultOperation
//@item file=netconf/src/message/rpc/operation/edit_config.rs kind=struct name=EditConfig sub=/target:=>pub target:;source:=>pub source:;default_operation:=>pub default_operation:;error_option:=>pub error_option:;test_option:=>pub test_option:/
//@item file=netconf/src/message/rpc/operation/edit_config.rs kind=struct name=Builder sub=/ctx:=>pub ctx:;target:=>pub target:;source:=>pub source:;default_operation:=>pub default_operation:;error_option:=>pub error_option:;test_option:=>pub test_option:/
pub open spec fn inv<D>(b: Builder<D>) -> bool {
    &&& b.target.value matches Some(ds) ==> permitted_target(ds, b.ctx.server_capabilities.set@)
    &&& (b.error_option is RollbackOnError) ==> permitted_error_option(b.error_option, b.ctx.server_capabilities.set@)
    &&& !(b.test_option is TestThenSet) ==> permitted_test_option(b.test_option, b.ctx.server_capabilities.set@)
}
impl<'a, D> Builder<'a, D> {
//@extract id=edit_config_builder_target file=netconf/src/message/rpc/operation/edit_config.rs impl=/^impl<D> Builder<'_, D>/ fn=target rules=R1,R7,R16,R17 r7map=result vis=pub
//@contract
        requires inv(self),
        ensures res is Ok <==> permitted_target(target, self.ctx.server_capabilities.set@),          // OBL:C09.edit_config.target_iff_permitted
                res matches Ok(b) ==> inv(b) && b.ctx == self.ctx,                                   // OBL:C09.edit_config.builder_holds_only_permitted
                res matches Ok(b) ==> b.target.value == Some(target) && b.error_option == self.error_option && b.test_option == self.test_option,   // OBL:C09.edit_config.target_is_recorded
//@end
//@extract id=edit_config_builder_error_option file=netconf/src/message/rpc/operation/edit_config.rs impl=/^impl<D> Builder<'_, D>/ fn=error_option rules=R1,R7,R16,R17 r7map=result vis=pub
//@+ sub=/try_use::<D>(=>try_use(/
//@contract
        requires inv(self),
        ensures res is Ok <==> permitted_error_option(error_option, self.ctx.server_capabilities.set@),   // OBL:C09.edit_config.error_option_iff_permitted
                res matches Ok(b) ==> inv(b) && b.ctx == self.ctx,                                   // OBL:C09.edit_config.builder_holds_only_permitted
                res matches Ok(b) ==> b.error_option == error_option && b.target == self.target && b.test_option == self.test_option,   // OBL:C09.edit_config.error_option_is_recorded
//@end
//@extract id=edit_config_builder_test_option file=netconf/src/message/rpc/operation/edit_config.rs impl=/^impl<D> Builder<'_, D>/ fn=test_option rules=R1,R7,R16,R17 r7map=result vis=pub
//@+ sub=/try_use::<D>(=>try_use(/
//@contract
        requires inv(self),
        ensures res is Ok <==> permitted_test_option(test_option, self.ctx.server_capabilities.set@),     // OBL:C09.edit_config.test_option_iff_permitted
                res matches Ok(b) ==> inv(b) && b.ctx == self.ctx,                                   // OBL:C09.edit_config.builder_holds_only_permitted
                res matches Ok(b) ==> b.test_option == test_option && b.target == self.target && b.error_option == self.error_option,   // OBL:C09.edit_config.test_option_is_recorded
//@end
//@extract id=edit_config_builder_url file=netconf/src/message/rpc/operation/edit_config.rs impl=/^impl<D> Builder<'_, D>/ fn=url rules=R1,R7,R16,R17 r7map=result vis=pub
//@sig pub fn url(mut self, url: &str) -> (res: Result<Self, Error>)
//@contract
        requires inv(self),
        ensures res is Ok <==> super::url::uri_valid(url) && super::url::permitted_url(super::url::uri_scheme(url), self.ctx.server_capabilities.set@),   // OBL:C09.edit_config.url_iff_scheme_advertised
                res matches Ok(b) ==> inv(b) && b.ctx == self.ctx && b.target == self.target && b.error_option == self.error_option && b.test_option == self.test_option,
//@end
//@extract id=edit_config_builder_new file=netconf/src/message/rpc/operation/edit_config.rs impl=/Builder<'a, EditConfig<D>> for Builder<'a, D>/ fn=new rules=R1 vis=pub
//@contract
        ensures inv(res), res.ctx == ctx, res.target.value is None, res.source.value is None,       // OBL:C09.edit_config.fresh_builder_holds_only_permitted
//@end
//@extract id=edit_config_builder_finish file=netconf/src/message/rpc/operation/edit_config.rs impl=/Builder<'a, EditConfig<D>> for Builder<'a, D>/ fn=finish rules=R1 vis=pub
//@+ sub=/require::<EditConfig<D>>=>require/
//@contract
        requires inv(self),
        ensures res matches Ok(op) ==> permitted_target(op.target, self.ctx.server_capabilities.set@)
                    && (op.error_option is RollbackOnError ==> permitted_error_option(op.error_option, self.ctx.server_capabilities.set@))
                    && (!(op.test_option is TestThenSet) ==> permitted_test_option(op.test_option, self.ctx.server_capabilities.set@)),   // OBL:C09.edit_config.request_uses_only_permitted
                res is Ok <==> self.target.value is Some && self.source.value is Some,                   // OBL:C09.edit_config.complete_request_is_built
//@end
}
}

pub mod delete_config {
use super::*;
pub use super::url::Url;
//@item file=netconf/src/message/rpc/operation/delete_config.rs kind=enum name=Target sub=/enum Target=>pub enum Target/
//@item file=netconf/src/message/rpc/operation/delete_config.rs kind=struct name=DeleteConfig sub=/target:=>pub target:/
//@item file=netconf/src/message/rpc/operation/delete_config.rs kind=struct name=Builder sub=/ctx:=>pub ctx:;target:=>pub target:/
// RFC 6241 7.4: the <running> configuration datastore cannot be deleted; any other datastore named as target must exist
// (:candidate / :startup), a URL target needs the :url capability with its scheme
pub open spec fn permitted_delete_target(ds: Datastore, caps: Set<Capability>) -> bool { !(ds is Running) && permitted_target(ds, caps) }
pub open spec fn inv(b: Builder) -> bool { b.target.value matches Some(Target::Datastore(ds)) ==> permitted_delete_target(ds, b.ctx.server_capabilities.set@) }
impl<'a> Builder<'a> {
//@extract id=delete_config_builder_target file=netconf/src/message/rpc/operation/delete_config.rs impl=/^impl Builder<'_>/ fn=target rules=R1,R7,R16,R17 r7map=result vis=pub
//@contract
        requires inv(self),
        ensures res is Ok <==> permitted_delete_target(target, self.ctx.server_capabilities.set@),     // OBL:C09.delete_config.target_iff_permitted
                res matches Ok(b) ==> inv(b) && b.ctx == self.ctx && b.target.value == Some(Target::Datastore(target)),   // OBL:C09.delete_config.builder_holds_only_permitted
//@end
//@extract id=delete_config_builder_url file=netconf/src/message/rpc/operation/delete_config.rs impl=/^impl Builder<'_>/ fn=url rules=R1,R7,R16,R17 r7map=result vis=pub
//@sig pub fn url(mut self, url: &str) -> (res: Result<Self, Error>)
//@contract
        requires inv(self),
        ensures res is Ok <==> super::url::uri_valid(url) && super::url::permitted_url(super::url::uri_scheme(url), self.ctx.server_capabilities.set@),   // OBL:C09.delete_config.url_iff_scheme_advertised
                res matches Ok(b) ==> inv(b) && b.ctx == self.ctx,
//@end
//@extract id=delete_config_builder_new file=netconf/src/message/rpc/operation/delete_config.rs impl=/Builder<'a, DeleteConfig> for Builder<'a>/ fn=new rules=R1 vis=pub
//@contract
        ensures inv(res), res.ctx == ctx, res.target.value is None,
//@end
//@extract id=delete_config_builder_finish file=netconf/src/message/rpc/operation/delete_config.rs impl=/Builder<'a, DeleteConfig> for Builder<'a>/ fn=finish rules=R1 vis=pub
//@+ sub=/require::<DeleteConfig>=>require/
//@contract
        requires inv(self),
        ensures res matches Ok(op) ==> (op.target matches Target::Datastore(ds) ==> permitted_delete_target(ds, self.ctx.server_capabilities.set@)),   // OBL:C09.delete_config.request_uses_only_permitted
                res is Ok <==> self.target.value is Some,                                              // OBL:C09.delete_config.complete_request_is_built
//@end
}
}

// ---------- operation-level requirements ----------
// RFC 6241: <commit> / <discard-changes> exist only with :candidate (8.3.4); <cancel-commit> only with :confirmed-commit:1.1
// (8.4.4.1); <validate> only with :validate (8.6.4); everything else of section 7 is part of the base protocol. The Junos
// operations need the Junos XML management protocol capability. (Written from the RFC, not from the code.)
pub enum OpKind { Get, GetConfig, EditConfig, CopyConfig, DeleteConfig, Lock, Unlock, CloseSession, KillSession, Commit, DiscardChanges,
                  CancelCommit, Validate, JunosOpenConfiguration, JunosLoadConfiguration, JunosCommitConfiguration }
pub open spec fn op_permitted(op: OpKind, caps: Set<Capability>) -> bool {
    match op {
        OpKind::Commit | OpKind::DiscardChanges => has(caps, Capability::Candidate),
        OpKind::CancelCommit => has(caps, Capability::ConfirmedCommitV1_1),
        OpKind::Validate => has(caps, Capability::ValidateV1_0) || has(caps, Capability::ValidateV1_1),
        OpKind::JunosOpenConfiguration | OpKind::JunosLoadConfiguration | OpKind::JunosCommitConfiguration => has(caps, Capability::JunosXmlManagementProtocol),
        _ => true,
    }
}
pub mod required {
use super::*;
//@assoc file=netconf/src/message/rpc/operation/commit.rs impl=/impl(<\w+>)? Operation for Commit/ kind=const name=REQUIRED_CAPABILITIES as=commit_required id=commit_required
//@+ ensures=/forall|caps: Set<Capability>| #[trigger] req_sat(res, caps) <==> op_permitted(OpKind::Commit, caps)/ label=C09.operation.commit_requirement
//@assoc file=netconf/src/message/rpc/operation/discard_changes.rs impl=/impl(<\w+>)? Operation for DiscardChanges/ kind=const name=REQUIRED_CAPABILITIES as=discard_changes_required id=discard_changes_required
//@+ ensures=/forall|caps: Set<Capability>| #[trigger] req_sat(res, caps) <==> op_permitted(OpKind::DiscardChanges, caps)/ label=C09.operation.discard_changes_requirement
//@assoc file=netconf/src/message/rpc/operation/cancel_commit.rs impl=/impl(<\w+>)? Operation for CancelCommit/ kind=const name=REQUIRED_CAPABILITIES as=cancel_commit_required id=cancel_commit_required
//@+ ensures=/forall|caps: Set<Capability>| #[trigger] req_sat(res, caps) <==> op_permitted(OpKind::CancelCommit, caps)/ label=C09.operation.cancel_commit_requirement
//@assoc file=netconf/src/message/rpc/operation/validate.rs impl=/impl(<\w+>)? Operation for Validate/ kind=const name=REQUIRED_CAPABILITIES as=validate_required id=validate_required
//@+ ensures=/forall|caps: Set<Capability>| #[trigger] req_sat(res, caps) <==> op_permitted(OpKind::Validate, caps)/ label=C09.operation.validate_requirement
//@assoc file=netconf/src/message/rpc/operation/get.rs impl=/impl(<\w+>)? Operation for Get/ kind=const name=REQUIRED_CAPABILITIES as=get_required id=get_required
//@+ ensures=/forall|caps: Set<Capability>| #[trigger] req_sat(res, caps) <==> op_permitted(OpKind::Get, caps)/ label=C09.operation.get_requirement
//@assoc file=netconf/src/message/rpc/operation/get_config.rs impl=/impl(<\w+>)? Operation for GetConfig<D>/ kind=const name=REQUIRED_CAPABILITIES as=get_config_required id=get_config_required
//@+ ensures=/forall|caps: Set<Capability>| #[trigger] req_sat(res, caps) <==> op_permitted(OpKind::GetConfig, caps)/ label=C09.operation.get_config_requirement
//@assoc file=netconf/src/message/rpc/operation/edit_config.rs impl=/impl(<\w+>)? Operation for EditConfig<D>/ kind=const name=REQUIRED_CAPABILITIES as=edit_config_required id=edit_config_required
//@+ ensures=/forall|caps: Set<Capability>| #[trigger] req_sat(res, caps) <==> op_permitted(OpKind::EditConfig, caps)/ label=C09.operation.edit_config_requirement
//@assoc file=netconf/src/message/rpc/operation/copy_config.rs impl=/impl(<\w+>)? Operation for CopyConfig/ kind=const name=REQUIRED_CAPABILITIES as=copy_config_required id=copy_config_required
//@+ ensures=/forall|caps: Set<Capability>| #[trigger] req_sat(res, caps) <==> op_permitted(OpKind::CopyConfig, caps)/ label=C09.operation.copy_config_requirement
//@assoc file=netconf/src/message/rpc/operation/delete_config.rs impl=/impl(<\w+>)? Operation for DeleteConfig/ kind=const name=REQUIRED_CAPABILITIES as=delete_config_required id=delete_config_required
//@+ ensures=/forall|caps: Set<Capability>| #[trigger] req_sat(res, caps) <==> op_permitted(OpKind::DeleteConfig, caps)/ label=C09.operation.delete_config_requirement
//@assoc file=netconf/src/message/rpc/operation/lock.rs impl=/impl(<\w+>)? Operation for Lock/ kind=const name=REQUIRED_CAPABILITIES as=lock_required id=lock_required
//@+ ensures=/forall|caps: Set<Capability>| #[trigger] req_sat(res, caps) <==> op_permitted(OpKind::Lock, caps)/ label=C09.operation.lock_requirement
//@assoc file=netconf/src/message/rpc/operation/lock.rs impl=/impl(<\w+>)? Operation for Unlock/ kind=const name=REQUIRED_CAPABILITIES as=unlock_required id=unlock_required
//@+ ensures=/forall|caps: Set<Capability>| #[trigger] req_sat(res, caps) <==> op_permitted(OpKind::Unlock, caps)/ label=C09.operation.unlock_requirement
//@assoc file=netconf/src/message/rpc/operation/close_session.rs impl=/impl(<\w+>)? Operation for CloseSession/ kind=const name=REQUIRED_CAPABILITIES as=close_session_required id=close_session_required
//@+ ensures=/forall|caps: Set<Capability>| #[trigger] req_sat(res, caps) <==> op_permitted(OpKind::CloseSession, caps)/ label=C09.operation.close_session_requirement
//@assoc file=netconf/src/message/rpc/operation/kill_session.rs impl=/impl(<\w+>)? Operation for KillSession/ kind=const name=REQUIRED_CAPABILITIES as=kill_session_required id=kill_session_required
//@+ ensures=/forall|caps: Set<Capability>| #[trigger] req_sat(res, caps) <==> op_permitted(OpKind::KillSession, caps)/ label=C09.operation.kill_session_requirement
//@assoc file=netconf/src/message/rpc/operation/junos/open_configuration.rs impl=/impl(<\w+>)? Operation for OpenConfiguration/ kind=const name=REQUIRED_CAPABILITIES as=junos_open_configuration_required id=junos_open_configuration_required
//@+ ensures=/forall|caps: Set<Capability>| #[trigger] req_sat(res, caps) <==> op_permitted(OpKind::JunosOpenConfiguration, caps)/ label=C09.operation.junos_open_configuration_requirement
//@assoc file=netconf/src/message/rpc/operation/junos/load_configuration.rs impl=/impl(<\w+>)? Operation for LoadConfiguration<S>/ kind=const name=REQUIRED_CAPABILITIES as=junos_load_configuration_required id=junos_load_configuration_required
//@+ ensures=/forall|caps: Set<Capability>| #[trigger] req_sat(res, caps) <==> op_permitted(OpKind::JunosLoadConfiguration, caps)/ label=C09.operation.junos_load_configuration_requirement
//@assoc file=netconf/src/message/rpc/operation/junos/commit_configuration.rs impl=/impl(<\w+>)? Operation for CommitConfiguration/ kind=const name=REQUIRED_CAPABILITIES as=junos_commit_configuration_required id=junos_commit_configuration_required
//@+ ensures=/forall|caps: Set<Capability>| #[trigger] req_sat(res, caps) <==> op_permitted(OpKind::JunosCommitConfiguration, caps)/ label=C09.operation.junos_commit_configuration_requirement
}

// Operation::new - the gate every request passes before its builder runs (trait default method; the associated items it uses
// are restated as trait functions: REQUIRED_CAPABILITIES -> required_capabilities(), NAME -> name(), and
// `Self::Builder::new(ctx).build(build_fn)` -> build_with(ctx, build_fn), all three logged as substitutions)
pub trait Operation: Sized {
    spec fn spec_required() -> Requirements;
    spec fn spec_build(ctx: Context) -> Result<Self, Error>;
    fn required_capabilities() -> (r: Requirements) ensures r == Self::spec_required();
    fn name() -> (r: &'static str);
    fn build_with<F>(ctx: &Context, build_fn: F) -> (r: Result<Self, Error>) ensures r == Self::spec_build(*ctx);
//@extract id=operation_new file=netconf/src/message/rpc/operation/mod.rs fn=new rules=R1,R7 r7map=result
//@+ sub=/Self::REQUIRED_CAPABILITIES=>Self::required_capabilities();;Self::NAME=>Self::name();;Self::Builder::new(ctx).build(build_fn)=>Self::build_with(ctx, build_fn)/
//@sig fn new<F>(ctx: &Context, build_fn: F) -> (res: Result<Self, Error>)
//@contract
        ensures
            // nothing is built (hence nothing sent) for an operation the advertised capabilities do not permit ...
            res is Ok ==> req_sat(Self::spec_required(), ctx.server_capabilities.set@),           // OBL:C09.operation.built_only_if_permitted
            // ... and a permitted operation is handed to its builder, whose result is returned unchanged
            req_sat(Self::spec_required(), ctx.server_capabilities.set@) ==> res == Self::spec_build(*ctx),   // OBL:C09.operation.permitted_operation_is_built
//@end
}

// ---------- Url::try_new: the URL scheme gate (RFC 6241 8.8: a URL may be used only if the :url capability lists its scheme) ----------
pub mod url {
use super::*;
#[derive(Clone, Copy)]
pub struct UriRef { pub scheme: StrId, pub full: StrId, pub id: u64 }          // &UriStr: its scheme component and the whole string
pub uninterp spec fn uri_valid(s: &str) -> bool;
pub uninterp spec fn uri_scheme(s: &str) -> StrId;
pub uninterp spec fn uri_id(s: &str) -> u64;
pub struct UriStr;
impl UriStr {
    // iri-string: validates the string and gives access to its components
    #[verifier::external_body]
    pub fn new(s: &str) -> (r: Result<UriRef, UriError>)
        ensures r is Ok <==> uri_valid(s), r matches Ok(u) ==> u.scheme == uri_scheme(s) && u.id == uri_id(s)
    { unimplemented!() }
}
impl UriRef {
    pub fn scheme_str(&self) -> (r: StrId) ensures r == self.scheme { self.scheme }
    pub fn as_str(&self) -> (r: StrId) ensures r == self.full { self.full }
    pub fn into(self) -> (r: ArcUri) ensures r.id == self.id { ArcUri { id: self.id } }
}
pub struct Url { pub inner: ArcUri }
// the capability c is a :url capability whose scheme list has this scheme
pub open spec fn cap_lists(c: Capability, scheme: StrId) -> bool { c matches Capability::Url(sch) && schemes_contain(sch, scheme) }
pub open spec fn permitted_url(scheme: StrId, caps: Set<Capability>) -> bool {
    exists|c: Capability| #[trigger] caps.contains(c) && cap_lists(c, scheme)
}
impl Url {
//@extract id=url_try_new file=netconf/src/message/rpc/operation/mod.rs impl=/^impl Url/ fn=try_new rules=R1,R28,R7 r7map=result vis=pub
//@+ sub=/UriStr::new(s.as_ref())=>UriStr::new(s)/
//@sig pub fn try_new(s: &str, ctx: &Context) -> (res: Result<Self, Error>)
//@contract
        ensures
            // a URL is accepted exactly if it is a URI and some advertised :url capability lists its scheme
            res is Ok <==> uri_valid(s) && permitted_url(uri_scheme(s), ctx.server_capabilities.set@),   // OBL:C09.url.accepted_iff_scheme_advertised
            res matches Ok(u) ==> u.inner.id == uri_id(s),                                                 // OBL:C09.url.value_unchanged
//@loop 1
            invariant_except_break
                found__0 is None,
                forall|j: int| 0 <= j < ot__0.pos@ ==> !cap_lists(#[trigger] ot__0.elems@[j], url.scheme),       // OBL:C09.url.no_match_so_far
            invariant
                0 <= ot__0.pos@ <= ot__0.elems@.len(),
                forall|c: Capability| #[trigger] ot__0.elems@.contains(c) <==> ctx.server_capabilities.set@.contains(c),
            ensures
                found__0 is Some <==> permitted_url(url.scheme, ctx.server_capabilities.set@),                 // OBL:C09.url.found_iff_scheme_advertised
            decreases ot__0.elems@.len() - ot__0.pos@,
//@loop 2
            invariant
                found__0 is None, 0 < ot__0.pos@ <= ot__0.elems@.len(),
                forall|c: Capability| #[trigger] ot__0.elems@.contains(c) <==> ctx.server_capabilities.set@.contains(c),
                forall|j: int| 0 <= j < ot__0.pos@ - 1 ==> !cap_lists(#[trigger] ot__0.elems@[j], url.scheme),
                ot__0.elems@[ot__0.pos@ - 1] matches Capability::Url(sch) && sch.list == *in__0.all,
                in__0.pos <= in__0.all@.len(),
                forall|j: int| 0 <= j < in__0.pos ==> (#[trigger] in__0.all@[j]).s != url.scheme,                 // OBL:C09.url.no_scheme_match_so_far
            ensures
                found__0 is None, !cap_lists(ot__0.elems@[ot__0.pos@ - 1], url.scheme),
            decreases in__0.all@.len() - in__0.pos,
//@before /found__0 = Some\(q__0\)/
                proof {
                    let c = ot__0.elems@[ot__0.pos@ - 1];
                    assert(ot__0.elems@.contains(c));
                    // (conditional, so that this hint cannot fail: if the code's test is not an equality, it is the loop's
                    // `ensures` - the labelled obligation - that fails)
                    if in__0.all@[in__0.pos - 1].s == url.scheme { assert(cap_lists(c, url.scheme)); }
                }
//@before /break; \/\*outer exhausted\*\//
                proof {
                    assert forall|c: Capability| #[trigger] ctx.server_capabilities.set@.contains(c) implies !cap_lists(c, url.scheme) by {
                        assert(ot__0.elems@.contains(c));
                        let j = choose|j: int| 0 <= j < ot__0.elems@.len() && ot__0.elems@[j] == c;
                        assert(!cap_lists(ot__0.elems@[j], url.scheme));
                    }
                }
//@end
}
} // mod url

} // mod operation

} // verus!
fn main() {}

// Unit A11 — ordering of a run: open -> (fetch) -> load x N -> commit -> close-db -> close (C04), sequential model.
use vstd::prelude::*;
use core::marker::PhantomData;
// tokio::try_join!(a, b): both (already completed, see R26) results, or the first error.  anyhow!(..): an opaque error value.
#[allow(unused_macros)]
pub mod tokio { macro_rules! try_join_ { ($a:expr, $b:expr) => { crate::client::try_join2($a, $b) } } pub(crate) use try_join_ as try_join; }
// anyhow::ensure!(cond, ..) / anyhow::bail!(..): early return of an error that is NOT an environment fault
#[allow(unused_macros)]
pub mod anyhow {
    macro_rules! ensure_ { ($c:expr $(, $($t:tt)*)?) => { if !($c) { return Err(crate::anyhow_shim()); } } }
    macro_rules! bail_ { ($($t:tt)*) => { return Err(crate::anyhow_shim()) } }
    pub(crate) use ensure_ as ensure; pub(crate) use bail_ as bail;
}
#[allow(unused_macros)]
macro_rules! anyhow { ($($t:tt)*) => { crate::anyhow_shim() } }
verus! {

// ---------- ghost trace of one NETCONF session ----------
pub enum Op { OpenConfiguration, GetConfig, LoadConfiguration, CommitConfiguration, CloseConfiguration, CloseSession }
// Sent(op, ticket): the request was handed to the session; its reply is identified by `ticket`
pub enum Ev { Sent(Op, int) }
// whether the server positively acknowledged the request with this ticket (decided by the server: arbitrary, fixed per run)
pub uninterp spec fn acked_ok(ticket: int) -> bool;

// env_fault(): "some step of this run failed for a reason outside the agent" (a request could not be sent, a reply was not a
// positive acknowledgement, the target or the IRRd server could not be reached, a task panicked).  Every fallible shim
// below states `Err ==> env_fault()`; C15 (run level) is then: run() fails only if env_fault().
pub uninterp spec fn env_fault() -> bool;
// final_trace(sid): the request trace of session `sid` at the moment its <close-session> request was sent (Session::close
// consumes the session, so this is defined at most once per session); lets run()'s postcondition speak about a session
// that no longer exists when run() returns
pub uninterp spec fn final_trace(sid: int) -> Seq<Ev>;
pub struct NcError;
pub struct AnyErr;
impl AnyErr { #[verifier::external_body] pub fn context(self, msg: &str) -> (r: AnyErr) { unimplemented!() } }
#[verifier::external_body]
pub fn anyhow_shim() -> (r: AnyErr) { unimplemented!() }
pub struct Session { pub trace: Ghost<Seq<Ev>>, pub sid: Ghost<int> }
pub struct ReplyFut { pub ticket: Ghost<int> }
impl ReplyFut {
    // awaiting the inner future: Ok iff the reply to this request was a positive acknowledgement (rpc-error, malformed or
    // mis-numbered reply, disconnect => Err)
    #[verifier::external_body]
    pub fn await_(self) -> (r: Result<(), NcError>) ensures r is Ok <==> acked_ok(self.ticket@), r is Err ==> env_fault() { unimplemented!() }
}
// the reply future of a <get-config> request (its value: the parsed configuration, opaque here)
pub struct DataFut<R> { pub ticket: Ghost<int>, pub _r: PhantomData<R> }
pub struct MappedFut<R> { pub ticket: Ghost<int>, pub _r: PhantomData<R> }
impl<R> DataFut<R> {
    // futures::TryFutureExt::map_err: same future, error type mapped by the closure
    #[verifier::external_body]
    pub fn map_err<F: FnOnce(NcError) -> AnyErr>(self, f: F) -> (r: MappedFut<R>) ensures r.ticket@ == self.ticket@ { unimplemented!() }
}
impl<R> MappedFut<R> {
    #[verifier::external_body]
    pub fn await_(self) -> (r: Result<R, AnyErr>) ensures r is Ok <==> acked_ok(self.ticket@), r is Err ==> env_fault() { unimplemented!() }
}
pub open spec fn sent_step(t0: Seq<Ev>, t1: Seq<Ev>, op: Op, r: Result<ReplyFut, NcError>) -> bool {
    &&& match r { Ok(f) => t1 == t0.push(Ev::Sent(op, f.ticket@)), Err(_) => t1 == t0 }
    &&& r is Err ==> env_fault()
}
pub open spec fn ticket_of(e: Ev) -> int { match e { Ev::Sent(_, k) => k } }
// every request on the trace was positively acknowledged
pub open spec fn all_acked(t: Seq<Ev>) -> bool { forall|i: int| 0 <= i < t.len() ==> acked_ok(ticket_of(#[trigger] t[i])) }
pub open spec fn closedb_sent(t: Seq<Ev>) -> bool { exists|i: int| 0 <= i < t.len() && (#[trigger] t[i]) matches Ev::Sent(Op::CloseConfiguration, _) }
// C04, last sentence: what the session's history must look like when run() reports success
pub open spec fn run_complete(t: Seq<Ev>) -> bool {
    &&& all_acked(t)
    &&& db_open(t) && commit_sent(t) && closedb_sent(t)
    &&& t.len() > 0 && t.last() matches Ev::Sent(Op::CloseSession, _)
}
pub open spec fn all_loads_acked(t: Seq<Ev>) -> bool { forall|i: int| 0 <= i < t.len() ==> (#[trigger] t[i] matches Ev::Sent(Op::LoadConfiguration, k) ==> acked_ok(k)) }
pub open spec fn db_open(t: Seq<Ev>) -> bool { exists|i: int| 0 <= i < t.len() && (#[trigger] t[i] matches Ev::Sent(Op::OpenConfiguration, k) && acked_ok(k)) }
pub open spec fn commit_acked(t: Seq<Ev>) -> bool { exists|i: int| 0 <= i < t.len() && (#[trigger] t[i] matches Ev::Sent(Op::CommitConfiguration, k) && acked_ok(k)) }
pub open spec fn commit_sent(t: Seq<Ev>) -> bool { exists|i: int| 0 <= i < t.len() && (#[trigger] t[i]) matches Ev::Sent(Op::CommitConfiguration, _) }
impl Session {
    // R22: session.rpc::<Op, _>(builder closure).await  -  Ok(future) iff the request was built and sent
    #[verifier::external_body]
    pub fn rpc_OpenConfiguration(&mut self) -> (r: Result<ReplyFut, NcError>) ensures sent_step(old(self).trace@, final(self).trace@, Op::OpenConfiguration, r), final(self).sid == old(self).sid { unimplemented!() }
    #[verifier::external_body]
    pub fn rpc_LoadConfiguration(&mut self) -> (r: Result<ReplyFut, NcError>) ensures sent_step(old(self).trace@, final(self).trace@, Op::LoadConfiguration, r), final(self).sid == old(self).sid { unimplemented!() }
    // C04: a commit may be REQUESTED only on a session whose ephemeral database was opened and acknowledged, and only if
    // every configuration load sent on it so far was positively acknowledged
    #[verifier::external_body]
    pub fn rpc_CommitConfiguration(&mut self) -> (r: Result<ReplyFut, NcError>)
        requires
            db_open(old(self).trace@),                                                        // OBL:C04.commit.only_on_opened_database
            all_loads_acked(old(self).trace@),                                                // OBL:C04.commit.only_after_every_load_acknowledged
            all_acked(old(self).trace@),                                                      // OBL:C04.commit.only_after_every_step_acknowledged
        ensures sent_step(old(self).trace@, final(self).trace@, Op::CommitConfiguration, r), final(self).sid == old(self).sid
    { unimplemented!() }
    #[verifier::external_body]
    pub fn rpc_CloseConfiguration(&mut self) -> (r: Result<ReplyFut, NcError>) ensures sent_step(old(self).trace@, final(self).trace@, Op::CloseConfiguration, r), final(self).sid == old(self).sid { unimplemented!() }
    #[verifier::external_body]
    pub fn rpc_GetConfig<R>(&mut self) -> (r: Result<DataFut<R>, NcError>)
        ensures match r { Ok(f) => final(self).trace@ == old(self).trace@.push(Ev::Sent(Op::GetConfig, f.ticket@)), Err(_) => final(self).trace@ == old(self).trace@ },
                r is Err ==> env_fault(), final(self).sid == old(self).sid
    { unimplemented!() }
    // Session::close: sends <close-session> and consumes the session
    #[verifier::external_body]
    pub fn close(self) -> (r: Result<ReplyFut, NcError>)
        ensures r matches Ok(f) ==> final_trace(self.sid@) == self.trace@.push(Ev::Sent(Op::CloseSession, f.ticket@)),
                r is Err ==> env_fault()
    { unimplemented!() }
}
// anyhow::Context::context on Result, and `.await` on an already-complete Result (R3 awaitcall)
pub trait Ctx<T> { fn context(self, msg: &str) -> (r: Result<T, AnyErr>); }
impl<T> Ctx<T> for Result<T, NcError> {
    #[verifier::external_body]
    fn context(self, msg: &str) -> (r: Result<T, AnyErr>) ensures match self { Ok(v) => r == Ok::<T, AnyErr>(v), Err(_) => r is Err } { unimplemented!() }
}
impl<T> Ctx<T> for Result<T, AnyErr> {
    #[verifier::external_body]
    fn context(self, msg: &str) -> (r: Result<T, AnyErr>) ensures match self { Ok(v) => r == Ok::<T, AnyErr>(v), Err(_) => r is Err } { unimplemented!() }
}
pub struct LibError; pub struct JoinError;
// tokio::time::timeout(d, fut).await: Ok(the future's output) or Err(Elapsed); std::time::Duration (whole seconds)
pub struct Elapsed;
pub struct Duration { pub secs: u64 }
impl Duration { pub const fn from_secs(secs: u64) -> (r: Duration) ensures r.secs == secs { Duration { secs } } }
pub struct TimeoutFut<T> { pub v: T }
impl<T> TimeoutFut<T> {
    #[verifier::external_body]
    pub fn await_(self) -> (r: Result<T, Elapsed>) ensures r matches Ok(v) ==> v == self.v, r is Err ==> env_fault() { unimplemented!() }
}
pub mod time {
    use super::*;
    // (sequential model: the inner future has already run to completion when it is handed over)
    pub fn timeout<T>(d: Duration, v: T) -> (r: TimeoutFut<T>) ensures r.v == v { TimeoutFut { v } }
}
impl<T> Ctx<T> for Result<T, Elapsed> {
    #[verifier::external_body]
    fn context(self, msg: &str) -> (r: Result<T, AnyErr>) ensures match self { Ok(v) => r == Ok::<T, AnyErr>(v), Err(_) => r is Err } { unimplemented!() }
}
impl<T> Ctx<T> for Result<T, LibError> {
    #[verifier::external_body]
    fn context(self, msg: &str) -> (r: Result<T, AnyErr>) ensures match self { Ok(v) => r == Ok::<T, AnyErr>(v), Err(_) => r is Err } { unimplemented!() }
}
impl<T> Ctx<T> for Result<T, JoinError> {
    #[verifier::external_body]
    fn context(self, msg: &str) -> (r: Result<T, AnyErr>) ensures match self { Ok(v) => r == Ok::<T, AnyErr>(v), Err(_) => r is Err } { unimplemented!() }
}
pub trait AwaitDone: Sized { fn await_(self) -> (r: Self) ensures r == self; }
impl<T> AwaitDone for Result<T, NcError> { fn await_(self) -> (r: Self) { self } }
impl<T> AwaitDone for Result<T, AnyErr> { fn await_(self) -> (r: Self) { self } }

// Load::updates(): the per-policy updates of this run (any number)
pub struct Update;
//@item file=junos-agent/src/policies/mod.rs kind=struct name=Updates sub=/pub(crate) struct Updates<'a>=>pub struct Updates;inner: Vec<Update<'a>>=>pub inner: Vec<Update>/
pub struct UpdIter { pub left: Ghost<nat> }
pub trait IntoUpdIter { fn into_iter_(self) -> (r: UpdIter); }
impl IntoUpdIter for Vec<Update> {
    // Vec::into_iter (renamed by a logged substitution: the std method of the same name would be ambiguous): every element once
    #[verifier::external_body]
    fn into_iter_(self) -> (r: UpdIter) ensures r.left@ == self@.len() { unimplemented!() }
}
impl Updates {
//@extract id=updates_updates file=junos-agent/src/policies/load.rs impl=/impl<'a> Load for Updates<'a>/ fn=updates rules=R1 vis=pub
//@+ sub=/.into_iter()=>.into_iter_()/
//@sig pub fn updates(self) -> (res: UpdIter)
//@contract
        // C01 / C04: every update that compare() computed is handed to load_config - none is filtered out on the way
        ensures res.left@ == self.inner@.len(),                                               // OBL:C04+C01.updates.every_computed_update_is_loaded
//@end
}
impl UpdIter {
    pub fn into_iter_(self) -> (r: UpdIter) ensures r == self { self }
    #[verifier::external_body]
    pub fn next(&mut self) -> (r: Option<Update>)
        ensures match r { Some(_) => old(self).left@ > 0 && final(self).left@ == old(self).left@ - 1, None => old(self).left@ == 0 && final(self).left@ == 0 }
    { unimplemented!() }
}
pub struct VecIter { pub items: Ghost<Seq<ReplyFut>>, pub pos: Ghost<int> }
pub trait IntoIterShim { fn into_iter_(self) -> (r: VecIter); }
impl IntoIterShim for Vec<ReplyFut> {
    #[verifier::external_body]
    fn into_iter_(self) -> (r: VecIter) ensures r.items@ == self@, r.pos@ == 0 { unimplemented!() }
}
impl VecIter {
    #[verifier::external_body]
    pub fn next(&mut self) -> (r: Option<ReplyFut>)
        requires 0 <= old(self).pos@ <= old(self).items@.len(),
        ensures final(self).items@ == old(self).items@, 0 <= final(self).pos@ <= final(self).items@.len(),
            match r { Some(f) => old(self).pos@ < old(self).items@.len() && f == old(self).items@[old(self).pos@] && final(self).pos@ == old(self).pos@ + 1,
                      None => old(self).pos@ == old(self).items@.len() && final(self).pos@ == old(self).pos@ }
    { unimplemented!() }
}

pub struct Open; pub struct Closed;
pub struct Client<S> { pub session: Session, pub _db_state: PhantomData<S> }

// new events of a call are only loads, each recorded in `futs`
pub open spec fn loads_tracked(t0: Seq<Ev>, t1: Seq<Ev>, futs: Seq<ReplyFut>) -> bool {
    &&& t0.len() <= t1.len() && t1.subrange(0, t0.len() as int) =~= t0
    &&& forall|i: int| t0.len() <= i < t1.len() ==> (#[trigger] t1[i] matches Ev::Sent(Op::LoadConfiguration, k) && exists|j: int| 0 <= j < futs.len() && (#[trigger] futs[j]).ticket@ == k)
}


// ---------- lemmas about appending one event ----------
pub broadcast proof fn lemma_db_open_push(t: Seq<Ev>, e: Ev)
    ensures #[trigger] db_open(t.push(e)) == (db_open(t) || (e matches Ev::Sent(Op::OpenConfiguration, k) && acked_ok(k))),
{
    let t2 = t.push(e);
    if db_open(t) { let i = choose|i: int| 0 <= i < t.len() && (#[trigger] t[i] matches Ev::Sent(Op::OpenConfiguration, k) && acked_ok(k)); assert(t2[i] == t[i]); }
    if (e matches Ev::Sent(Op::OpenConfiguration, k) && acked_ok(k)) { assert(t2[t.len() as int] == e); }
    if db_open(t2) { let i = choose|i: int| 0 <= i < t2.len() && (#[trigger] t2[i] matches Ev::Sent(Op::OpenConfiguration, k) && acked_ok(k)); if i < t.len() { assert(t2[i] == t[i]); } }
}
pub broadcast proof fn lemma_commit_sent_push(t: Seq<Ev>, e: Ev)
    ensures #[trigger] commit_sent(t.push(e)) == (commit_sent(t) || e matches Ev::Sent(Op::CommitConfiguration, _)),
{
    let t2 = t.push(e);
    if commit_sent(t) { let i = choose|i: int| 0 <= i < t.len() && (#[trigger] t[i]) matches Ev::Sent(Op::CommitConfiguration, _); assert(t2[i] == t[i]); }
    if e matches Ev::Sent(Op::CommitConfiguration, _) { assert(t2[t.len() as int] == e); }
    if commit_sent(t2) { let i = choose|i: int| 0 <= i < t2.len() && (#[trigger] t2[i]) matches Ev::Sent(Op::CommitConfiguration, _); if i < t.len() { assert(t2[i] == t[i]); } }
}
pub broadcast proof fn lemma_commit_acked_push(t: Seq<Ev>, e: Ev)
    ensures #[trigger] commit_acked(t.push(e)) == (commit_acked(t) || (e matches Ev::Sent(Op::CommitConfiguration, k) && acked_ok(k))),
{
    let t2 = t.push(e);
    if commit_acked(t) { let i = choose|i: int| 0 <= i < t.len() && (#[trigger] t[i] matches Ev::Sent(Op::CommitConfiguration, k) && acked_ok(k)); assert(t2[i] == t[i]); }
    if (e matches Ev::Sent(Op::CommitConfiguration, k) && acked_ok(k)) { assert(t2[t.len() as int] == e); }
    if commit_acked(t2) { let i = choose|i: int| 0 <= i < t2.len() && (#[trigger] t2[i] matches Ev::Sent(Op::CommitConfiguration, k) && acked_ok(k)); if i < t.len() { assert(t2[i] == t[i]); } }
}
pub broadcast proof fn lemma_all_loads_acked_push(t: Seq<Ev>, e: Ev)
    ensures #[trigger] all_loads_acked(t.push(e)) == (all_loads_acked(t) && (e matches Ev::Sent(Op::LoadConfiguration, k) ==> acked_ok(k))),
{
    let t2 = t.push(e);
    if all_loads_acked(t2) {
        assert forall|i: int| 0 <= i < t.len() implies (#[trigger] t[i] matches Ev::Sent(Op::LoadConfiguration, k) ==> acked_ok(k)) by { assert(t2[i] == t[i]); }
        assert(t2[t.len() as int] == e);
    }
    if all_loads_acked(t) && (e matches Ev::Sent(Op::LoadConfiguration, k) ==> acked_ok(k)) {
        assert forall|i: int| 0 <= i < t2.len() implies (#[trigger] t2[i] matches Ev::Sent(Op::LoadConfiguration, k) ==> acked_ok(k)) by { if i < t.len() { assert(t2[i] == t[i]); } }
    }
}
pub broadcast proof fn lemma_all_acked_push(t: Seq<Ev>, e: Ev)
    ensures #[trigger] all_acked(t.push(e)) == (all_acked(t) && acked_ok(ticket_of(e))),
{
    let t2 = t.push(e);
    if all_acked(t2) {
        assert forall|i: int| 0 <= i < t.len() implies acked_ok(ticket_of(#[trigger] t[i])) by { assert(t2[i] == t[i]); }
        assert(t2[t.len() as int] == e);
    }
    if all_acked(t) && acked_ok(ticket_of(e)) {
        assert forall|i: int| 0 <= i < t2.len() implies acked_ok(ticket_of(#[trigger] t2[i])) by { if i < t.len() { assert(t2[i] == t[i]); } }
    }
}
pub broadcast proof fn lemma_closedb_sent_push(t: Seq<Ev>, e: Ev)
    ensures #[trigger] closedb_sent(t.push(e)) == (closedb_sent(t) || e matches Ev::Sent(Op::CloseConfiguration, _)),
{
    let t2 = t.push(e);
    if closedb_sent(t) { let i = choose|i: int| 0 <= i < t.len() && (#[trigger] t[i]) matches Ev::Sent(Op::CloseConfiguration, _); assert(t2[i] == t[i]); }
    if e matches Ev::Sent(Op::CloseConfiguration, _) { assert(t2[t.len() as int] == e); }
    if closedb_sent(t2) { let i = choose|i: int| 0 <= i < t2.len() && (#[trigger] t2[i]) matches Ev::Sent(Op::CloseConfiguration, _); if i < t.len() { assert(t2[i] == t[i]); } }
}
pub broadcast proof fn lemma_all_acked_empty()
    ensures #[trigger] all_acked(Seq::<Ev>::empty()),
{
}
pub broadcast proof fn lemma_loads_tracked_push(t0: Seq<Ev>, t1: Seq<Ev>, futs: Seq<ReplyFut>, f: ReplyFut)
    requires loads_tracked(t0, t1, futs),
    ensures #[trigger] loads_tracked(t0, t1.push(Ev::Sent(Op::LoadConfiguration, f.ticket@)), futs.push(f)),
{
    let t2 = t1.push(Ev::Sent(Op::LoadConfiguration, f.ticket@));
    let f2 = futs.push(f);
    assert(t2.subrange(0, t0.len() as int) =~= t1.subrange(0, t0.len() as int));
    assert forall|i: int| t0.len() <= i < t2.len() implies (#[trigger] t2[i] matches Ev::Sent(Op::LoadConfiguration, k) && exists|j: int| 0 <= j < f2.len() && (#[trigger] f2[j]).ticket@ == k) by {
        if i < t1.len() {
            assert(t2[i] == t1[i]);
            let k = t1[i]->Sent_1;
            let j = choose|j: int| 0 <= j < futs.len() && (#[trigger] futs[j]).ticket@ == k;
            assert(f2[j] == futs[j]);
        } else {
            assert(f2[futs.len() as int] == f);
        }
    }
}
pub broadcast proof fn lemma_loads_tracked_refl(t0: Seq<Ev>)
    ensures #[trigger] loads_tracked(t0, t0, Seq::<ReplyFut>::empty()),
{
}
// total lemma (no precondition): if every tracked load future was awaited with a positive acknowledgement, all loads are acknowledged
pub proof fn lemma_all_awaited(t0: Seq<Ev>, t1: Seq<Ev>, futs: Seq<ReplyFut>)
    ensures (all_loads_acked(t0) && loads_tracked(t0, t1, futs) && (forall|j: int| 0 <= j < futs.len() ==> acked_ok((#[trigger] futs[j]).ticket@))) ==> all_loads_acked(t1),
            (all_acked(t0) && loads_tracked(t0, t1, futs) && (forall|j: int| 0 <= j < futs.len() ==> acked_ok((#[trigger] futs[j]).ticket@))) ==> all_acked(t1),
{
    if all_acked(t0) && loads_tracked(t0, t1, futs) && (forall|j: int| 0 <= j < futs.len() ==> acked_ok((#[trigger] futs[j]).ticket@)) {
        assert forall|i: int| 0 <= i < t1.len() implies acked_ok(ticket_of(#[trigger] t1[i])) by {
            if i < t0.len() { assert(t1[i] == t1.subrange(0, t0.len() as int)[i]); }
        }
    }
    if all_loads_acked(t0) && loads_tracked(t0, t1, futs) && (forall|j: int| 0 <= j < futs.len() ==> acked_ok((#[trigger] futs[j]).ticket@)) {
        assert forall|i: int| 0 <= i < t1.len() implies (#[trigger] t1[i] matches Ev::Sent(Op::LoadConfiguration, k) ==> acked_ok(k)) by {
            if i < t0.len() { assert(t1[i] == t1.subrange(0, t0.len() as int)[i]); }
        }
    }
}
pub broadcast group trace_lemmas { lemma_db_open_push, lemma_commit_sent_push, lemma_commit_acked_push, lemma_all_loads_acked_push, lemma_loads_tracked_push, lemma_loads_tracked_refl, lemma_all_acked_push, lemma_closedb_sent_push, lemma_all_acked_empty }

pub mod client {
use super::*;
broadcast use trace_lemmas;

impl Client<Closed> {
//@extract id=client_open_db file=junos-agent/src/netconf/mod.rs impl=/impl<T: Target> Client<T, Closed>/ fn=open_db rules=R1,R2,R3,R16,R17,R22 awaitcall=1
//@sig pub fn open_db(mut self, name: &str) -> (res: Result<Client<Open>, AnyErr>)
//@contract
        ensures res matches Ok(c) ==> db_open(c.session.trace@)                                  // OBL:C04.open_db.ok_means_database_opened
                && (all_loads_acked(self.session.trace@) ==> all_loads_acked(c.session.trace@))
                && (all_acked(self.session.trace@) ==> all_acked(c.session.trace@))              // OBL:C04.open_db.ok_means_open_acknowledged
                && (!commit_sent(self.session.trace@) ==> !commit_sent(c.session.trace@))
                && c.session.sid == self.session.sid,
                res is Err ==> env_fault(),                                                       // OBL:C15.open_db.fails_only_on_environment_faults
//@end
}
impl Client<Open> {
//@extract id=client_fetch_config file=junos-agent/src/netconf/mod.rs impl=/impl<T: Target> Client<T, Open>/ fn=fetch_config rules=R1,R2,R3,R17,R22 awaitcall=1
//@sig pub fn fetch_config<R>(&mut self) -> (res: Result<MappedFut<R>, AnyErr>)
//@contract
        ensures
            // a <get-config> is the only thing requested; the returned future is the one of that request
            match res { Ok(f) => final(self).session.trace@ == old(self).session.trace@.push(Ev::Sent(Op::GetConfig, f.ticket@)),
                        Err(_) => final(self).session.trace@ == old(self).session.trace@ },           // OBL:C04.fetch_config.requests_one_get_config
            final(self).session.sid == old(self).session.sid,
            res is Err ==> env_fault(),                                                               // OBL:C15.fetch_config.fails_only_on_environment_faults
//@end
//@extract id=client_load_config file=junos-agent/src/netconf/mod.rs impl=/impl<T: Target> Client<T, Open>/ fn=load_config rules=R1,R2,R3,R12,R7,R17,R22 awaitcall=1 intoiter=.into_iter_() r7map=result
//@sig pub fn load_config(&mut self, config: Updates) -> (res: Result<&mut Self, AnyErr>)
//@contract
        requires all_loads_acked(old(self).session.trace@),
        ensures
            // all load replies are awaited - and checked - before load_config reports success
            res matches Ok(c) ==> all_loads_acked(c.session.trace@),                          // OBL:C04+C01.load_config.ok_means_every_load_acknowledged
            res matches Ok(c) ==> (all_acked(old(self).session.trace@) ==> all_acked(c.session.trace@)),   // OBL:C04+C01.load_config.ok_keeps_every_step_acknowledged
            res matches Ok(c) ==> (db_open(old(self).session.trace@) ==> db_open(c.session.trace@)),
            res matches Ok(c) ==> (!commit_sent(old(self).session.trace@) ==> !commit_sent(c.session.trace@)),   // OBL:C04.load_config.requests_no_commit
            res matches Ok(c) ==> *final(c) == *final(self) && c.session.sid == old(self).session.sid,
            res is Err ==> final(self).session.sid == old(self).session.sid,
            // on failure: still no commit has been requested by load_config
            res is Err ==> (!commit_sent(old(self).session.trace@) ==> !commit_sent(final(self).session.trace@)),   // OBL:C04.load_config.failure_requests_no_commit
            res is Err ==> env_fault(),                                                       // OBL:C15.load_config.fails_only_on_environment_faults
//@loop 1
                invariant
                    loads_tracked(old(self).session.trace@, self.session.trace@, updates@),  // OBL:C04+C01.load_config.every_sent_load_is_tracked
                    db_open(old(self).session.trace@) ==> db_open(self.session.trace@),
                    !commit_sent(old(self).session.trace@) ==> !commit_sent(self.session.trace@),
                    self.session.sid == old(self).session.sid,
                decreases it__0.left@,
//@loop 2 optional
            invariant
                self.session.trace@ == trace_after_send, it__1.items@ == futs_sent, 0 <= it__1.pos@ <= it__1.items@.len(),
                loads_tracked(old(self).session.trace@, trace_after_send, futs_sent), all_loads_acked(old(self).session.trace@),
                db_open(old(self).session.trace@) ==> db_open(self.session.trace@),
                !commit_sent(old(self).session.trace@) ==> !commit_sent(self.session.trace@),
                self.session.sid == old(self).session.sid,
                forall|j: int| 0 <= j < it__1.pos@ ==> acked_ok((#[trigger] it__1.items@[j]).ticket@),   // OBL:C04+C01.load_config.awaited_loads_acknowledged
            ensures it__1.pos@ == it__1.items@.len(),
            decreases it__1.items@.len() - it__1.pos@,
//@after /let (mut )?updates = \{/
        let ghost trace_after_send = self.session.trace@;
        let ghost futs_sent = updates@;
//@before @tail
        proof { lemma_all_awaited(old(self).session.trace@, self.session.trace@, futs_sent); }
//@end
//@extract id=client_commit_config file=junos-agent/src/netconf/mod.rs impl=/impl<T: Target> Client<T, Open>/ fn=commit_config rules=R1,R2,R3,R17,R22 awaitcall=1
//@sig pub fn commit_config(&mut self) -> (res: Result<(), AnyErr>)
//@contract
        requires db_open(old(self).session.trace@), all_loads_acked(old(self).session.trace@), all_acked(old(self).session.trace@),   // (the obligations of the commit request, passed on to the caller)
        ensures res is Ok ==> commit_acked(final(self).session.trace@) && commit_sent(final(self).session.trace@),   // OBL:C04.commit_config.ok_means_commit_acknowledged
                res is Ok ==> all_acked(final(self).session.trace@) && db_open(final(self).session.trace@),          // OBL:C04.commit_config.ok_keeps_every_step_acknowledged
                final(self).session.sid == old(self).session.sid,
                res is Err ==> env_fault(),                                                     // OBL:C15.commit_config.fails_only_on_environment_faults
//@end

//@extract id=client_close_db file=junos-agent/src/netconf/mod.rs impl=/impl<T: Target> Client<T, Open>/ fn=close_db rules=R1,R2,R3,R16,R17,R22 awaitcall=1
//@sig pub fn close_db(mut self) -> (res: Result<Client<Closed>, AnyErr>)
//@contract
        ensures res matches Ok(c) ==> (commit_acked(self.session.trace@) ==> commit_acked(c.session.trace@)),
                res matches Ok(c) ==> (all_acked(self.session.trace@) ==> all_acked(c.session.trace@)) && closedb_sent(c.session.trace@),   // OBL:C04.close_db.ok_means_close_acknowledged
                res matches Ok(c) ==> (db_open(self.session.trace@) ==> db_open(c.session.trace@)) && (commit_sent(self.session.trace@) ==> commit_sent(c.session.trace@)),
                res matches Ok(c) ==> c.session.sid == self.session.sid,
                res is Err ==> env_fault(),                                                     // OBL:C15.close_db.fails_only_on_environment_faults
//@end
}
impl Client<Closed> {
//@extract id=client_close file=junos-agent/src/netconf/mod.rs impl=/impl<T: Target> Client<T, Closed>/ fn=close rules=R1,R2,R3,R17,R22 awaitcall=1
//@sig pub fn close(self) -> (res: Result<(), AnyErr>)
//@contract
        // Ok: the <close-session> was sent, it was the last request of this session, and it was acknowledged
        ensures res is Ok ==> exists|k: int| final_trace(self.session.sid@) == self.session.trace@.push(Ev::Sent(Op::CloseSession, k)) && acked_ok(k),   // OBL:C04.close.ok_means_close_acknowledged
                res is Err ==> env_fault(),                                                     // OBL:C15.close.fails_only_on_environment_faults
//@end
}

// ---------- junos-agent/src/task.rs: Updater::run (whole function) and handle_task ----------
pub struct JunosOpts;
impl JunosOpts { #[verifier::external_body] pub fn ephemeral_db(&self) -> (r: &str) { unimplemented!() } }
pub struct IrrdOpts;
impl IrrdOpts {
    #[verifier::external_body] pub fn host(&self) -> (r: &str) { unimplemented!() }
    #[verifier::external_body] pub fn port(&self) -> (r: u16) { unimplemented!() }
}
pub struct Target { pub sid: Ghost<int> }
impl Target {
    // Target::connect: a fresh NETCONF session (nothing requested on it yet)
    #[verifier::external_body]
    pub fn connect(self) -> (r: Result<Client<Closed>, AnyErr>)
        ensures r matches Ok(c) ==> c.session.trace@ == Seq::<Ev>::empty() && c.session.sid == self.sid,
                r is Err ==> env_fault()
    { unimplemented!() }
}
// the policy sets (contents opaque here: units a4 / a10 are about them)
pub struct Candidate; pub struct Installed; pub struct Evaluated;
pub struct Policies<S> { pub _s: PhantomData<S> }
impl<S> Policies<S> {
    #[verifier::external_body] pub fn len(&self) -> (r: usize) { unimplemented!() }
    #[verifier::external_body] pub fn default() -> (r: Self) { unimplemented!() }
}
// whether the IRRd server can be reached in this run (arbitrary, fixed)
pub uninterp spec fn irr_reachable() -> bool;
pub struct RpslEvaluator;
impl RpslEvaluator {
    // connects to the IRRd server
    #[verifier::external_body]
    pub fn new(host: &str, port: u16) -> (r: Result<RpslEvaluator, LibError>) ensures r is Err ==> env_fault(), r is Ok <==> irr_reachable() { unimplemented!() }
}
impl Policies<Candidate> {
    // Policies<Candidate>::evaluate (verified in unit a4): never fails as a whole - a policy whose expression cannot be
    // evaluated is recorded as such and the others are still evaluated
    #[verifier::external_body]
    pub fn evaluate(self, evaluator: &mut RpslEvaluator) -> (r: Policies<Evaluated>) { unimplemented!() }
}
impl Policies<Evaluated> {
    // how many of the candidates were / were not evaluated successfully: ARBITRARY numbers here, so that nothing proved
    // about run() depends on them
    #[verifier::external_body] pub fn succeeded(&self) -> (r: usize) { unimplemented!() }
    #[verifier::external_body] pub fn failed(&self) -> (r: usize) { unimplemented!() }
    // Policies<Evaluated>::compare (verified in unit a4)
    #[verifier::external_body]
    pub fn compare(&self, installed: &Policies<Installed>) -> (r: Updates) { unimplemented!() }
}
// R26: a spawned task, run to completion at the spawn point; `res` is what the task returned
pub struct JoinHandle<T> { pub res: T }
#[verifier::external_body]
pub fn tokio_spawn_<T, F: FnOnce() -> T>(f: F) -> (r: JoinHandle<T>)
    requires f.requires(()),
    ensures f.ensures((), r.res),
{ unimplemented!() }
impl<T> JoinHandle<T> {
    // awaiting the handle: the task's value, or a JoinError if the task panicked / was cancelled
    #[verifier::external_body]
    pub fn await_(self) -> (r: Result<T, JoinError>) ensures r matches Ok(v) ==> v == self.res, r is Err ==> env_fault() { unimplemented!() }
}
// tokio::try_join!(a, b) on two completed results
pub fn try_join2<A, B>(a: Result<A, AnyErr>, b: Result<B, AnyErr>) -> (r: Result<(A, B), AnyErr>)
    ensures match r { Ok((x, y)) => a == Ok::<A, AnyErr>(x) && b == Ok::<B, AnyErr>(y), Err(_) => a is Err || b is Err }
{
    match a { Ok(x) => match b { Ok(y) => Ok((x, y)), Err(e) => Err(e) }, Err(e) => Err(e) }
}

//@extract id=handle_task file=junos-agent/src/task.rs fn=handle_task rules=R1,R2,R3 awaitcall=1
//@sig pub fn handle_task<T>(handle: JoinHandle<Result<T, AnyErr>>) -> (res: Result<T, AnyErr>)
//@contract
        ensures res matches Ok(v) ==> handle.res == Ok::<T, AnyErr>(v),                               // OBL:C04.handle_task.ok_only_for_a_successful_task
                res is Err ==> (handle.res is Err || env_fault()),                                     // OBL:C15.handle_task.fails_only_if_the_task_failed
//@end

pub struct Updater { pub target: Target, pub junos: JunosOpts, pub irrd: IrrdOpts }
impl Updater {
//@extract id=updater_run file=junos-agent/src/task.rs impl=/impl<T: Target \+ 'static> Updater<T>/ fn=run rules=R1,R2,R3,R27,R26,R7,R17 awaitcall=1 r7map=result
//@sig pub fn run(self) -> (res: Result<(), AnyErr>)
//@contract
        ensures
            // C04: a run reports success only if every request of its session - open, both fetches, every load, the commit
            // and both closing steps - was sent and positively acknowledged, in a history that ends with <close-session>
            res is Ok ==> run_complete(final_trace(self.target.sid@)),                               // OBL:C04.run.success_means_every_step_acknowledged
            // C15: nothing but a failing step of the environment makes the run fail - in particular not the outcome of
            // the evaluation of the candidates' filter expressions
            res is Err ==> env_fault(),                                                               // OBL:C15.run.aborts_only_on_environment_faults
//@closure 1
                -> (r: Result<Policies<Evaluated>, AnyErr>)
                ensures r is Ok ==> acked_ok(response.ticket@),                                       // OBL:C04.run.failed_candidate_fetch_fails_the_task
                        // C03: without the IRR there is no evaluated policy set at all - never an empty one that compare()
                        // would read as "nothing is managed any more"
                        r is Ok ==> irr_reachable(),                                                  // OBL:C03.run.unreachable_irr_fails_the_evaluation_task
                        r is Err ==> env_fault(),                                                     // OBL:C15.run.evaluation_task_fails_only_on_environment_faults
//@closure 2
                -> (r: Result<Policies<Installed>, AnyErr>)
                ensures r is Ok ==> acked_ok(response.ticket@),                                       // OBL:C04.run.failed_installed_fetch_fails_the_task
                        r is Err ==> env_fault(),                                                     // OBL:C15.run.fetch_task_fails_only_on_environment_faults
//@end
}

} // mod client

} // verus!
fn main() {}

// Unit A11 — ordering of a run: open -> (fetch) -> load x N -> commit -> close-db -> close (C04), sequential model.
use vstd::prelude::*;
use core::marker::PhantomData;
verus! {

// ---------- ghost trace of one NETCONF session ----------
pub enum Op { OpenConfiguration, GetConfig, LoadConfiguration, CommitConfiguration, CloseConfiguration, CloseSession }
// Sent(op, ticket): the request was handed to the session; its reply is identified by `ticket`
pub enum Ev { Sent(Op, int) }
// whether the server positively acknowledged the request with this ticket (decided by the server: arbitrary, fixed per run)
pub uninterp spec fn acked_ok(ticket: int) -> bool;

pub struct NcError;
pub struct AnyErr;
pub struct Session { pub trace: Ghost<Seq<Ev>> }
pub struct ReplyFut { pub ticket: Ghost<int> }
impl ReplyFut {
    // awaiting the inner future: Ok iff the reply to this request was a positive acknowledgement (rpc-error, malformed or
    // mis-numbered reply, disconnect => Err)
    #[verifier::external_body]
    pub fn await_(self) -> (r: Result<(), NcError>) ensures r is Ok <==> acked_ok(self.ticket@) { unimplemented!() }
}
pub open spec fn sent_step(t0: Seq<Ev>, t1: Seq<Ev>, op: Op, r: Result<ReplyFut, NcError>) -> bool {
    match r { Ok(f) => t1 == t0.push(Ev::Sent(op, f.ticket@)), Err(_) => t1 == t0 }
}
pub open spec fn all_loads_acked(t: Seq<Ev>) -> bool { forall|i: int| 0 <= i < t.len() ==> (#[trigger] t[i] matches Ev::Sent(Op::LoadConfiguration, k) ==> acked_ok(k)) }
pub open spec fn db_open(t: Seq<Ev>) -> bool { exists|i: int| 0 <= i < t.len() && (#[trigger] t[i] matches Ev::Sent(Op::OpenConfiguration, k) && acked_ok(k)) }
pub open spec fn commit_acked(t: Seq<Ev>) -> bool { exists|i: int| 0 <= i < t.len() && (#[trigger] t[i] matches Ev::Sent(Op::CommitConfiguration, k) && acked_ok(k)) }
pub open spec fn commit_sent(t: Seq<Ev>) -> bool { exists|i: int| 0 <= i < t.len() && (#[trigger] t[i]) matches Ev::Sent(Op::CommitConfiguration, _) }
impl Session {
    // R22: session.rpc::<Op, _>(builder closure).await  -  Ok(future) iff the request was built and sent
    #[verifier::external_body]
    pub fn rpc_OpenConfiguration(&mut self) -> (r: Result<ReplyFut, NcError>) ensures sent_step(old(self).trace@, final(self).trace@, Op::OpenConfiguration, r) { unimplemented!() }
    #[verifier::external_body]
    pub fn rpc_LoadConfiguration(&mut self) -> (r: Result<ReplyFut, NcError>) ensures sent_step(old(self).trace@, final(self).trace@, Op::LoadConfiguration, r) { unimplemented!() }
    // C04: a commit may be REQUESTED only on a session whose ephemeral database was opened and acknowledged, and only if
    // every configuration load sent on it so far was positively acknowledged
    #[verifier::external_body]
    pub fn rpc_CommitConfiguration(&mut self) -> (r: Result<ReplyFut, NcError>)
        requires
            db_open(old(self).trace@),                                                        // OBL:C04.commit.only_on_opened_database
            all_loads_acked(old(self).trace@),                                                // OBL:C04.commit.only_after_every_load_acknowledged
        ensures sent_step(old(self).trace@, final(self).trace@, Op::CommitConfiguration, r)
    { unimplemented!() }
    #[verifier::external_body]
    pub fn rpc_CloseConfiguration(&mut self) -> (r: Result<ReplyFut, NcError>) ensures sent_step(old(self).trace@, final(self).trace@, Op::CloseConfiguration, r) { unimplemented!() }
    #[verifier::external_body]
    pub fn close(self) -> (r: Result<ReplyFut, NcError>) ensures r matches Ok(f) ==> true { unimplemented!() }
}
// anyhow::Context::context on Result, and `.await` on an already-complete Result (R3 awaitcall)
pub trait Ctx<T> { fn context(self, msg: &str) -> (r: Result<T, AnyErr>); }
impl<T> Ctx<T> for Result<T, NcError> {
    #[verifier::external_body]
    fn context(self, msg: &str) -> (r: Result<T, AnyErr>) ensures match self { Ok(v) => r == Ok::<T, AnyErr>(v), Err(_) => r is Err } { unimplemented!() }
}
impl<T> Ctx<T> for Result<T, AnyErr> {
    #[verifier::external_body]
    fn context(self, msg: &str) -> (r: Result<T, AnyErr>) ensures match self { Ok(v) => r == Ok::<T, AnyErr>(v), Err(_) => r is Err } { unimplemented!() }
}
pub trait AwaitDone: Sized { fn await_(self) -> (r: Self) ensures r == self; }
impl<T> AwaitDone for Result<T, NcError> { fn await_(self) -> (r: Self) { self } }
impl<T> AwaitDone for Result<T, AnyErr> { fn await_(self) -> (r: Self) { self } }

// Load::updates(): the per-policy updates of this run (any number)
pub struct Update;
pub struct Updates { pub n: Ghost<nat> }
pub struct UpdIter { pub left: Ghost<nat> }
impl Updates { #[verifier::external_body] pub fn updates(self) -> (r: UpdIter) ensures r.left@ == self.n@ { unimplemented!() } }
impl UpdIter {
    pub fn into_iter_(self) -> (r: UpdIter) ensures r == self { self }
    #[verifier::external_body]
    pub fn next(&mut self) -> (r: Option<Update>)
        ensures match r { Some(_) => old(self).left@ > 0 && final(self).left@ == old(self).left@ - 1, None => old(self).left@ == 0 && final(self).left@ == 0 }
    { unimplemented!() }
}
pub struct VecIter { pub items: Ghost<Seq<ReplyFut>>, pub pos: Ghost<int> }
pub trait IntoIterShim { fn into_iter_(self) -> (r: VecIter); }
impl IntoIterShim for Vec<ReplyFut> {
    #[verifier::external_body]
    fn into_iter_(self) -> (r: VecIter) ensures r.items@ == self@, r.pos@ == 0 { unimplemented!() }
}
impl VecIter {
    #[verifier::external_body]
    pub fn next(&mut self) -> (r: Option<ReplyFut>)
        requires 0 <= old(self).pos@ <= old(self).items@.len(),
        ensures final(self).items@ == old(self).items@, 0 <= final(self).pos@ <= final(self).items@.len(),
            match r { Some(f) => old(self).pos@ < old(self).items@.len() && f == old(self).items@[old(self).pos@] && final(self).pos@ == old(self).pos@ + 1,
                      None => old(self).pos@ == old(self).items@.len() && final(self).pos@ == old(self).pos@ }
    { unimplemented!() }
}

pub struct Open; pub struct Closed;
pub struct Client<S> { pub session: Session, pub _db_state: PhantomData<S> }

// new events of a call are only loads, each recorded in `futs`
pub open spec fn loads_tracked(t0: Seq<Ev>, t1: Seq<Ev>, futs: Seq<ReplyFut>) -> bool {
    &&& t0.len() <= t1.len() && t1.subrange(0, t0.len() as int) =~= t0
    &&& forall|i: int| t0.len() <= i < t1.len() ==> (#[trigger] t1[i] matches Ev::Sent(Op::LoadConfiguration, k) && exists|j: int| 0 <= j < futs.len() && (#[trigger] futs[j]).ticket@ == k)
}


// ---------- lemmas about appending one event ----------
pub broadcast proof fn lemma_db_open_push(t: Seq<Ev>, e: Ev)
    ensures #[trigger] db_open(t.push(e)) == (db_open(t) || (e matches Ev::Sent(Op::OpenConfiguration, k) && acked_ok(k))),
{
    let t2 = t.push(e);
    if db_open(t) { let i = choose|i: int| 0 <= i < t.len() && (#[trigger] t[i] matches Ev::Sent(Op::OpenConfiguration, k) && acked_ok(k)); assert(t2[i] == t[i]); }
    if (e matches Ev::Sent(Op::OpenConfiguration, k) && acked_ok(k)) { assert(t2[t.len() as int] == e); }
    if db_open(t2) { let i = choose|i: int| 0 <= i < t2.len() && (#[trigger] t2[i] matches Ev::Sent(Op::OpenConfiguration, k) && acked_ok(k)); if i < t.len() { assert(t2[i] == t[i]); } }
}
pub broadcast proof fn lemma_commit_sent_push(t: Seq<Ev>, e: Ev)
    ensures #[trigger] commit_sent(t.push(e)) == (commit_sent(t) || e matches Ev::Sent(Op::CommitConfiguration, _)),
{
    let t2 = t.push(e);
    if commit_sent(t) { let i = choose|i: int| 0 <= i < t.len() && (#[trigger] t[i]) matches Ev::Sent(Op::CommitConfiguration, _); assert(t2[i] == t[i]); }
    if e matches Ev::Sent(Op::CommitConfiguration, _) { assert(t2[t.len() as int] == e); }
    if commit_sent(t2) { let i = choose|i: int| 0 <= i < t2.len() && (#[trigger] t2[i]) matches Ev::Sent(Op::CommitConfiguration, _); if i < t.len() { assert(t2[i] == t[i]); } }
}
pub broadcast proof fn lemma_commit_acked_push(t: Seq<Ev>, e: Ev)
    ensures #[trigger] commit_acked(t.push(e)) == (commit_acked(t) || (e matches Ev::Sent(Op::CommitConfiguration, k) && acked_ok(k))),
{
    let t2 = t.push(e);
    if commit_acked(t) { let i = choose|i: int| 0 <= i < t.len() && (#[trigger] t[i] matches Ev::Sent(Op::CommitConfiguration, k) && acked_ok(k)); assert(t2[i] == t[i]); }
    if (e matches Ev::Sent(Op::CommitConfiguration, k) && acked_ok(k)) { assert(t2[t.len() as int] == e); }
    if commit_acked(t2) { let i = choose|i: int| 0 <= i < t2.len() && (#[trigger] t2[i] matches Ev::Sent(Op::CommitConfiguration, k) && acked_ok(k)); if i < t.len() { assert(t2[i] == t[i]); } }
}
pub broadcast proof fn lemma_all_loads_acked_push(t: Seq<Ev>, e: Ev)
    ensures #[trigger] all_loads_acked(t.push(e)) == (all_loads_acked(t) && (e matches Ev::Sent(Op::LoadConfiguration, k) ==> acked_ok(k))),
{
    let t2 = t.push(e);
    if all_loads_acked(t2) {
        assert forall|i: int| 0 <= i < t.len() implies (#[trigger] t[i] matches Ev::Sent(Op::LoadConfiguration, k) ==> acked_ok(k)) by { assert(t2[i] == t[i]); }
        assert(t2[t.len() as int] == e);
    }
    if all_loads_acked(t) && (e matches Ev::Sent(Op::LoadConfiguration, k) ==> acked_ok(k)) {
        assert forall|i: int| 0 <= i < t2.len() implies (#[trigger] t2[i] matches Ev::Sent(Op::LoadConfiguration, k) ==> acked_ok(k)) by { if i < t.len() { assert(t2[i] == t[i]); } }
    }
}
pub broadcast proof fn lemma_loads_tracked_push(t0: Seq<Ev>, t1: Seq<Ev>, futs: Seq<ReplyFut>, f: ReplyFut)
    requires loads_tracked(t0, t1, futs),
    ensures #[trigger] loads_tracked(t0, t1.push(Ev::Sent(Op::LoadConfiguration, f.ticket@)), futs.push(f)),
{
    let t2 = t1.push(Ev::Sent(Op::LoadConfiguration, f.ticket@));
    let f2 = futs.push(f);
    assert(t2.subrange(0, t0.len() as int) =~= t1.subrange(0, t0.len() as int));
    assert forall|i: int| t0.len() <= i < t2.len() implies (#[trigger] t2[i] matches Ev::Sent(Op::LoadConfiguration, k) && exists|j: int| 0 <= j < f2.len() && (#[trigger] f2[j]).ticket@ == k) by {
        if i < t1.len() {
            assert(t2[i] == t1[i]);
            let k = t1[i]->Sent_1;
            let j = choose|j: int| 0 <= j < futs.len() && (#[trigger] futs[j]).ticket@ == k;
            assert(f2[j] == futs[j]);
        } else {
            assert(f2[futs.len() as int] == f);
        }
    }
}
pub broadcast proof fn lemma_loads_tracked_refl(t0: Seq<Ev>)
    ensures #[trigger] loads_tracked(t0, t0, Seq::<ReplyFut>::empty()),
{
}
// total lemma (no precondition): if every tracked load future was awaited with a positive acknowledgement, all loads are acknowledged
pub proof fn lemma_all_awaited(t0: Seq<Ev>, t1: Seq<Ev>, futs: Seq<ReplyFut>)
    ensures (all_loads_acked(t0) && loads_tracked(t0, t1, futs) && (forall|j: int| 0 <= j < futs.len() ==> acked_ok((#[trigger] futs[j]).ticket@))) ==> all_loads_acked(t1),
{
    if all_loads_acked(t0) && loads_tracked(t0, t1, futs) && (forall|j: int| 0 <= j < futs.len() ==> acked_ok((#[trigger] futs[j]).ticket@)) {
        assert forall|i: int| 0 <= i < t1.len() implies (#[trigger] t1[i] matches Ev::Sent(Op::LoadConfiguration, k) ==> acked_ok(k)) by {
            if i < t0.len() { assert(t1[i] == t1.subrange(0, t0.len() as int)[i]); }
        }
    }
}
pub broadcast group trace_lemmas { lemma_db_open_push, lemma_commit_sent_push, lemma_commit_acked_push, lemma_all_loads_acked_push, lemma_loads_tracked_push, lemma_loads_tracked_refl }

pub mod client {
use super::*;
broadcast use trace_lemmas;

impl Client<Closed> {
//@extract id=client_open_db file=junos-agent/src/netconf/mod.rs impl=/impl<T: Target> Client<T, Closed>/ fn=open_db rules=R1,R2,R3,R16,R17,R22 awaitcall=1
//@sig pub fn open_db(mut self, name: &str) -> (res: Result<Client<Open>, AnyErr>)
//@contract
        ensures res matches Ok(c) ==> db_open(c.session.trace@)                                  // OBL:C04.open_db.ok_means_database_opened
                && (all_loads_acked(self.session.trace@) ==> all_loads_acked(c.session.trace@))
                && (!commit_sent(self.session.trace@) ==> !commit_sent(c.session.trace@)),
//@end
}
impl Client<Open> {
//@extract id=client_load_config file=junos-agent/src/netconf/mod.rs impl=/impl<T: Target> Client<T, Open>/ fn=load_config rules=R1,R2,R3,R12,R17,R22 awaitcall=1 intoiter=.into_iter_()
//@sig pub fn load_config(&mut self, config: Updates) -> (res: Result<&mut Self, AnyErr>)
//@contract
        requires all_loads_acked(old(self).session.trace@),
        ensures
            // all load replies are awaited - and checked - before load_config reports success
            res matches Ok(c) ==> all_loads_acked(c.session.trace@),                          // OBL:C04.load_config.ok_means_every_load_acknowledged
            res matches Ok(c) ==> (db_open(old(self).session.trace@) ==> db_open(c.session.trace@)),
            res matches Ok(c) ==> (!commit_sent(old(self).session.trace@) ==> !commit_sent(c.session.trace@)),   // OBL:C04.load_config.requests_no_commit
            res matches Ok(c) ==> *final(c) == *final(self),
            // on failure: still no commit has been requested by load_config
            res is Err ==> (!commit_sent(old(self).session.trace@) ==> !commit_sent(final(self).session.trace@)),   // OBL:C04.load_config.failure_requests_no_commit
//@loop 1
                invariant
                    loads_tracked(old(self).session.trace@, self.session.trace@, updates@),  // OBL:C04.load_config.every_sent_load_is_tracked
                    db_open(old(self).session.trace@) ==> db_open(self.session.trace@),
                    !commit_sent(old(self).session.trace@) ==> !commit_sent(self.session.trace@),
                decreases it__0.left@,
//@loop 2 optional
            invariant
                self.session.trace@ == trace_after_send, it__1.items@ == futs_sent, 0 <= it__1.pos@ <= it__1.items@.len(),
                loads_tracked(old(self).session.trace@, trace_after_send, futs_sent), all_loads_acked(old(self).session.trace@),
                db_open(old(self).session.trace@) ==> db_open(self.session.trace@),
                !commit_sent(old(self).session.trace@) ==> !commit_sent(self.session.trace@),
                forall|j: int| 0 <= j < it__1.pos@ ==> acked_ok((#[trigger] it__1.items@[j]).ticket@),   // OBL:C04.load_config.awaited_loads_acknowledged
            ensures it__1.pos@ == it__1.items@.len(),
            decreases it__1.items@.len() - it__1.pos@,
//@after /let (mut )?updates = \{/
        let ghost trace_after_send = self.session.trace@;
        let ghost futs_sent = updates@;
//@before /^\s*Ok\(self\)/
        proof { lemma_all_awaited(old(self).session.trace@, self.session.trace@, futs_sent); }
//@end
//@extract id=client_commit_config file=junos-agent/src/netconf/mod.rs impl=/impl<T: Target> Client<T, Open>/ fn=commit_config rules=R1,R2,R3,R17,R22 awaitcall=1
//@sig pub fn commit_config(&mut self) -> (res: Result<(), AnyErr>)
//@contract
        requires db_open(old(self).session.trace@), all_loads_acked(old(self).session.trace@),   // (the obligations of the commit request, passed on to the caller)
        ensures res is Ok ==> commit_acked(final(self).session.trace@),                         // OBL:C04.commit_config.ok_means_commit_acknowledged
//@end

//@extract id=client_close_db file=junos-agent/src/netconf/mod.rs impl=/impl<T: Target> Client<T, Open>/ fn=close_db rules=R1,R2,R3,R16,R17,R22 awaitcall=1
//@sig pub fn close_db(mut self) -> (res: Result<Client<Closed>, AnyErr>)
//@contract
        ensures res matches Ok(c) ==> (commit_acked(self.session.trace@) ==> commit_acked(c.session.trace@)),
//@end
}
impl Client<Closed> {
//@extract id=client_close file=junos-agent/src/netconf/mod.rs impl=/impl<T: Target> Client<T, Closed>/ fn=close rules=R1,R2,R3,R17,R22 awaitcall=1
//@sig pub fn close(self) -> (res: Result<(), AnyErr>)
//@end
}

// junos-agent/src/task.rs Updater::run - the part after the policies have been evaluated and compared
pub struct JunosOpts;
impl JunosOpts { #[verifier::external_body] pub fn ephemeral_db(&self) -> (r: &str) { unimplemented!() } }
pub struct Target;
impl Target {
    // Target::connect: a fresh NETCONF session (nothing requested on it yet)
    #[verifier::external_body]
    pub fn connect(self) -> (r: Result<Client<Closed>, AnyErr>) ensures r matches Ok(c) ==> c.session.trace@ == Seq::<Ev>::empty() { unimplemented!() }
}
pub struct Updater { pub target: Target, pub junos: JunosOpts }
impl Updater {
//@extract id=run_open file=junos-agent/src/task.rs impl=/impl<T: Target \+ 'static> Updater<T>/ fn=run stmts=/let mut netconf_client = self/ upto=/failed to open ephemeral database"\)\?;/ rules=R2,R3,R17 awaitcall=1 post=/Ok(netconf_client)/
//@sig pub fn run_open(self) -> (res: Result<Client<Open>, AnyErr>)
//@contract
        // C04: everything else of the run happens on a session whose ephemeral database was opened and acknowledged
        ensures res matches Ok(c) ==> db_open(c.session.trace@) && all_loads_acked(c.session.trace@) && !commit_sent(c.session.trace@),   // OBL:C04.run.database_opened_first
//@end
}
//@extract id=run_tail file=junos-agent/src/task.rs impl=/impl<T: Target \+ 'static> Updater<T>/ fn=run stmts=/^\s*netconf_client\s*$/ upto=/^\s*Ok\(\(\)\)/ rules=R2,R3,R17 awaitcall=1
//@sig pub fn run_tail(mut netconf_client: Client<Open>, updates: Updates) -> (res: Result<(), AnyErr>)
//@contract
        // the state in which run() reaches its load/commit phase (established by run_open; the fetches in between request no commit)
        requires db_open(netconf_client.session.trace@), all_loads_acked(netconf_client.session.trace@), !commit_sent(netconf_client.session.trace@),
        // the only obligations here are those of the commit request itself (see Session::rpc_CommitConfiguration): it is reached
        // only through `?` after load_config reported that every load was acknowledged
        ensures true,
//@end

} // mod client

} // verus!
fn main() {}

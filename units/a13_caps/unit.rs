// Unit A13 — capability URIs (C09, C12): Capability::from_str against the RFC 6241 / RFC 6242 table, and the reader of the
// <capabilities> element of a <hello> (C12: the capability set reported is the one in the hello; C14: it terminates).
use vstd::prelude::*;
// tokio::try_join!(a, b): drives both futures concurrently - both results, or an error if one of them failed
#[allow(unused_macros)]
pub mod tokio { macro_rules! try_join_ { ($a:expr, $b:expr) => { crate::try_join2($a, $b) } } pub(crate) use try_join_ as try_join; }
verus! {

//@include units/common_xml.rs

//@bytelits capability=NameId::Capability

pub enum NameId { Capability, Other }
#[verifier::opaque]
pub open spec fn name_id(s: Seq<u8>) -> NameId {
    if s =~= seq![99u8, 97, 112, 97, 98, 105, 108, 105, 116, 121] { NameId::Capability }          // "capability"
    else { NameId::Other }
}

// ---------- shims: iri_string::types::UriStr ----------
// the five components of a parsed URI reference (RFC 3986); the accessors return them
pub struct UriStr<'a> { pub scheme: &'a str, pub authority: Option<&'a str>, pub path: &'a str, pub query: Option<&'a str>, pub fragment: Option<&'a str> }
pub struct UriError;
pub uninterp spec fn uri_parts<'a>(s: &'a str) -> UriStr<'a>;
impl<'a> UriStr<'a> {
    // UriStr::new: validates and splits the string (iri-string crate: ASSUMED; which strings are URIs is not modelled)
    #[verifier::external_body]
    pub fn new(s: &'a str) -> (r: Result<&'a UriStr<'a>, UriError>) ensures r matches Ok(u) ==> *u == uri_parts(s) { unimplemented!() }
    pub fn scheme_str(&self) -> (r: &'a str) ensures r == self.scheme { self.scheme }
    pub fn authority_str(&self) -> (r: Option<&'a str>) ensures r == self.authority { self.authority }
    pub fn path_str(&self) -> (r: &'a str) ensures r == self.path { self.path }
    pub fn query_str(&self) -> (r: Option<&'a str>) ensures r == self.query { self.query }
    pub fn fragment(&self) -> (r: Option<&'a str>) ensures r == self.fragment { self.fragment }
    // Arc::<UriStr>::from(&UriStr)
    #[verifier::external_body]
    pub fn into(&self) -> (r: UnknownUri) { unimplemented!() }
}
pub struct UnknownUri { pub id: u64 }
pub struct UrlSchemes { pub id: u64 }
// opaque=: the `scheme=a,b&..` query-string splitting of the :url:1.0 capability (str::split / filter_map / flatten chain: not modelled)
#[verifier::external_body]
pub fn url_schemes_of(query: &str) -> (r: UrlSchemes) { unimplemented!() }
pub struct BoxErr;
pub enum ReadError { UnexpectedXmlEvent(Event), Uri(UriError), SessionIdParse(ParseIntError), Other(BoxErr) }
impl From<UriError> for ReadError { #[verifier::external_body] fn from(e: UriError) -> (r: ReadError) { unimplemented!() } }
impl From<XmlError> for ReadError { #[verifier::external_body] fn from(e: XmlError) -> (r: ReadError) { unimplemented!() } }
pub mod rpc { pub struct Error { pub x: u8 } }     // (Item::RpcError is unused in this unit)

//@item file=netconf/src/capabilities.rs kind=enum name=Base sub=/pub enum Base=>#[derive(Clone, Copy)] pub enum Base/
//@item file=netconf/src/capabilities.rs kind=enum name=Capability sub=/Url(Vec<Box<str>>)=>Url(UrlSchemes);Unknown(Arc<UriStr>)=>Unknown(UnknownUri)/

// ---------- the table, written from RFC 6241 section 8 (capability URNs), RFC 6241 section 8.1 (:base) and the Junos XML
// management protocol guide (http://xml.juniper.net/netconf/junos/1.0), NOT from the code ----------
pub enum Kind { Base10, Base11, WritableRunning, Candidate, ConfirmedCommit10, ConfirmedCommit11, RollbackOnError, Validate10, Validate11, Startup, Url, XPath, Junos, Unknown }
pub open spec fn kind_of(c: Capability) -> Kind {
    match c {
        Capability::Base(Base::V1_0) => Kind::Base10,
        Capability::Base(Base::V1_1) => Kind::Base11,
        Capability::WritableRunning => Kind::WritableRunning,
        Capability::Candidate => Kind::Candidate,
        Capability::ConfirmedCommitV1_0 => Kind::ConfirmedCommit10,
        Capability::ConfirmedCommitV1_1 => Kind::ConfirmedCommit11,
        Capability::RollbackOnError => Kind::RollbackOnError,
        Capability::ValidateV1_0 => Kind::Validate10,
        Capability::ValidateV1_1 => Kind::Validate11,
        Capability::Startup => Kind::Startup,
        Capability::Url(_) => Kind::Url,
        Capability::XPath => Kind::XPath,
        Capability::JunosXmlManagementProtocol => Kind::Junos,
        Capability::Unknown(_) => Kind::Unknown,
    }
}
// urn:ietf:params:netconf:<rest> : scheme "urn", no authority, the rest is the path
pub open spec fn rfc_kind(u: UriStr) -> Kind {
    if u.scheme == "urn" && u.authority is None && u.fragment is None {
        if u.query is None {
            if u.path == "ietf:params:netconf:base:1.0" { Kind::Base10 }
            else if u.path == "ietf:params:netconf:base:1.1" { Kind::Base11 }
            else if u.path == "ietf:params:netconf:capability:writable-running:1.0" { Kind::WritableRunning }
            else if u.path == "ietf:params:netconf:capability:candidate:1.0" { Kind::Candidate }
            else if u.path == "ietf:params:netconf:capability:confirmed-commit:1.0" { Kind::ConfirmedCommit10 }
            else if u.path == "ietf:params:netconf:capability:confirmed-commit:1.1" { Kind::ConfirmedCommit11 }
            else if u.path == "ietf:params:netconf:capability:rollback-on-error:1.0" { Kind::RollbackOnError }
            else if u.path == "ietf:params:netconf:capability:validate:1.0" { Kind::Validate10 }
            else if u.path == "ietf:params:netconf:capability:validate:1.1" { Kind::Validate11 }
            else if u.path == "ietf:params:netconf:capability:startup:1.0" { Kind::Startup }
            else if u.path == "ietf:params:netconf:capability:xpath:1.0" { Kind::XPath }
            else { Kind::Unknown }
        } else {
            // the :url capability carries its schemes in the query part (RFC 6241 8.8.3)
            if u.path == "ietf:params:netconf:capability:url:1.0" { Kind::Url } else { Kind::Unknown }
        }
    } else if u.scheme == "http" && u.authority == Some("xml.juniper.net") && u.path == "/netconf/junos/1.0" && u.query is None && u.fragment is None {
        Kind::Junos
    } else {
        Kind::Unknown
    }
}

pub mod caps {
use super::*;
impl Capability {
//@extract id=capability_from_str file=netconf/src/capabilities.rs impl=/impl FromStr for Capability/ fn=from_str rules=R1 vis=pub
//@+ opaque=/let schemes = =>url_schemes_of(query)/
//@sig pub fn from_str(s: &str) -> (res: Result<Self, ReadError>)
//@contract
        ensures
            // a URI is recognised as exactly the capability the RFC table assigns to it - in particular a URI that is not
            // in the table is never taken for a standard capability, and :base:1.0 / :base:1.1 are not confused
            res matches Ok(c) ==> kind_of(c) == rfc_kind(uri_parts(s)),                         // OBL:C09+C12.capability.uri_table
//@end
}
} // mod caps

// ---------- Capabilities::read_xml ----------
pub uninterp spec fn cap_of_text(t: Seq<u8>) -> Capability;
impl CowStr {
    // str::parse::<Capability>() = Capability::from_str (std); the result is a function of the text
    #[verifier::external_body]
    pub fn parse(&self) -> (r: Result<Capability, ReadError>) ensures r matches Ok(c) ==> c == cap_of_text(self.v@) { unimplemented!() }
}
pub struct HashSet { pub set: Ghost<Set<Capability>> }
impl HashSet {
    #[verifier::external_body] pub fn new() -> (r: HashSet) ensures r.set@ == Set::<Capability>::empty() { unimplemented!() }
    #[verifier::external_body] pub fn insert(&mut self, c: Capability) -> (r: bool) ensures final(self).set@ == old(self).set@.insert(c) { unimplemented!() }
}
//@item file=netconf/src/capabilities.rs kind=struct name=Capabilities sub=/inner: HashSet<Capability>=>pub inner: HashSet/
// the capabilities announced in a consumed segment of the log: one per text read
pub open spec fn caps_of(s: Seq<Item>) -> Set<Capability>
    decreases s.len()
{
    if s.len() == 0 { Set::empty() } else {
        match s.last() { Item::TextOf(t) => caps_of(s.drop_last()).insert(cap_of_text(t)), _ => caps_of(s.drop_last()) }
    }
}
pub broadcast proof fn lemma_caps_of_push(s: Seq<Item>, it: Item)
    ensures #[trigger] caps_of(s.push(it)) == (match it { Item::TextOf(t) => caps_of(s).insert(cap_of_text(t)), _ => caps_of(s) }),
{
    let s2 = s.push(it);
    assert(s2.drop_last() =~= s);
    assert(s2.last() == it);
    assert(s2.len() > 0);
}
pub broadcast group caps_lemmas { xml_log_lemmas, lemma_caps_of_push }

pub mod reader {
use super::*;
broadcast use caps_lemmas;
impl Capabilities {
//@extract id=capabilities_read_xml file=netconf/src/capabilities.rs impl=/impl ReadXml for Capabilities/ fn=read_xml rules=R1,R2,R11,R15,R17 vis=pub
//@local inner /let mut (\w+) = HashSet::new\(\)/
//@contract
        ensures
            res is Ok ==> final(reader).remaining@.len() <= old(reader).remaining@.len(),
            res is Ok ==> is_prefix(old(reader).log@, final(reader).log@),
            // the set handed to the session context is exactly the set of <capability> texts of the hello
            res matches Ok(c) ==> c.inner.set@ == caps_of(seg_of(old(reader).log@, final(reader).log@)),   // OBL:C12+C09.capabilities.exactly_those_of_the_hello
//@loop 1
            invariant
                is_prefix(old(reader).log@, reader.log@),
                reader.remaining@.len() <= old(reader).remaining@.len(),
                inner.set@ == caps_of(seg_of(old(reader).log@, reader.log@)),                   // OBL:C12+C09.capabilities.collected_so_far
            decreases reader.remaining@.len(),                                                  // OBL:C14.capabilities.terminates
//@end
}
} // mod reader

// ---------- session establishment: Session::new (C12) ----------
pub enum Error { VersionNegotiation, Transport, Read, InvalidSessionId { session_id: u32 } }
impl Error { #[verifier::external_body] pub fn into(self) -> (r: BoxErr) { unimplemented!() } }
// NonZeroU32 (std): a u32 that is not 0
pub struct NonZeroU32 { pub n: u32 }
impl NonZeroU32 {
    // std: None exactly for 0
    pub fn new(n: u32) -> (r: Option<NonZeroU32>) ensures r is Some <==> n != 0, r matches Some(x) ==> x.n == n { if n != 0 { Some(NonZeroU32 { n }) } else { None } }
}
// str::parse::<T>() for the integer types (std): Ok(v) iff the text is a decimal numeral whose value fits T
pub uninterp spec fn dec_value(s: &str) -> Option<nat>;
pub trait DecParse: Sized { spec fn of_nat(v: nat) -> Option<Self>; }
impl DecParse for NonZeroU32 { open spec fn of_nat(v: nat) -> Option<Self> { if 1 <= v <= 0xFFFF_FFFF { Some(NonZeroU32 { n: v as u32 }) } else { None } } }
impl DecParse for u32 { open spec fn of_nat(v: nat) -> Option<Self> { if v <= 0xFFFF_FFFF { Some(v as u32) } else { None } } }
impl DecParse for usize { open spec fn of_nat(v: nat) -> Option<Self> { if v <= usize::MAX { Some(v as usize) } else { None } } }
impl DecParse for u64 { open spec fn of_nat(v: nat) -> Option<Self> { if v <= u64::MAX { Some(v as u64) } else { None } } }
#[verifier::external_body]
pub fn parse_dec<T: DecParse>(s: &str) -> (r: Result<T, ParseIntError>)
    ensures match r { Ok(v) => dec_value(s) matches Some(n) && T::of_nat(n) == Some(v),
                      Err(_) => dec_value(s) is None || T::of_nat(dec_value(s)->0) is None }
{ unimplemented!() }
impl Clone for NonZeroU32 { fn clone(&self) -> (r: Self) ensures r == *self { NonZeroU32 { n: self.n } } }
impl Copy for NonZeroU32 {}
//@item file=netconf/src/session.rs kind=struct name=SessionId sub=/pub struct SessionId(NonZeroU32)=>#[derive(Clone, Copy)] pub struct SessionId(pub NonZeroU32)/
//@item file=netconf/src/message/hello.rs kind=struct name=ServerHello sub=/pub(crate) =>pub ;capabilities:=>pub capabilities:;session_id:=>pub session_id:/
//@item file=netconf/src/session.rs kind=struct name=Context sub=/session_id:=>pub session_id:;protocol_version:=>pub protocol_version:;client_capabilities:=>pub client_capabilities:;server_capabilities:=>pub server_capabilities:/
// a base version both peers advertised, and none higher (derive(Ord) on `enum Base { V1_0, V1_1 }`: V1_0 < V1_1)
pub open spec fn base_rank(v: Base) -> int { match v { Base::V1_0 => 0, Base::V1_1 => 1 } }
pub open spec fn common(v: Base, a: Set<Capability>, b: Set<Capability>) -> bool { a.contains(Capability::Base(v)) && b.contains(Capability::Base(v)) }
pub open spec fn is_highest_common(v: Base, a: Set<Capability>, b: Set<Capability>) -> bool {
    common(v, a, b) && forall|w: Base| common(w, a, b) ==> base_rank(w) <= base_rank(v)
}
impl Capabilities {
    // Capabilities::highest_common_version: HashSet::intersection / filter_map / collect::<BTreeSet> / last - an iterator
    // pipeline outside the verifier's reach; ASSUMED to do what its name and its six unit tests say
    #[verifier::external_body]
    pub fn highest_common_version(&self, other: &Self) -> (r: Result<Base, Error>)
        ensures r matches Ok(v) ==> is_highest_common(v, self.inner.set@, other.inner.set@),
                r is Err <==> forall|w: Base| !common(w, self.inner.set@, other.inner.set@),
    { unimplemented!() }
}
pub struct ClientHello { pub capabilities: Capabilities }
pub struct Tx; pub struct Rx;
pub struct Transport;
impl Transport { #[verifier::external_body] pub fn split(self) -> (r: (Tx, Rx)) { unimplemented!() } }
// what the peer's <hello> parses to (ServerMsg::recv = transport recv + from_xml + ServerHello::read_xml, units a1 / a12 / a8)
pub uninterp spec fn hello_received(rx: Rx) -> Result<ServerHello, Error>;
// The hello exchange is SIMULTANEOUS (RFC 6241 8.1: each peer MUST send its <hello> as soon as the session is up and MUST NOT wait
// for the other's): the futures of our send and of our receive have to be driven together. Awaiting either of them on its own
// can block for ever - our send when the peer does not read before it has written its own hello, our receive when the peer waits
// for ours. Modelled (R3 awaitcall): `send` / `recv` return futures; driving both together is `try_join2`; awaiting one of them
// alone has the precondition `false`.
pub struct SendFut;
pub struct RecvFut { pub rx: Ghost<Rx> }
impl SendFut {
    #[verifier::external_body]
    pub fn await_(self) -> (r: Result<(), Error>)
        requires false,                                                                       // OBL:C12.session.hello_is_sent_while_receiving
    { unimplemented!() }
}
impl RecvFut {
    #[verifier::external_body]
    pub fn await_(self) -> (r: Result<ServerHello, Error>)
        requires false,                                                                       // OBL:C12.session.hello_is_received_while_sending
        ensures r == hello_received(self.rx@),
    { unimplemented!() }
}
impl ClientHello {
    #[verifier::external_body] pub fn default() -> (r: ClientHello) { unimplemented!() }
    #[verifier::external_body] pub fn send(&self, sender: &mut Tx) -> (r: SendFut) { unimplemented!() }
}
impl ServerHello {
    #[verifier::external_body]
    pub fn recv(receiver: &mut Rx) -> (r: RecvFut) ensures r.rx@ == *old(receiver) { unimplemented!() }
}
// results that are already complete (`Self::new(transport).await`-style awaits on a Result)
pub trait AwaitDone: Sized { fn await_(self) -> (r: Self) ensures r == self; }
impl<T> AwaitDone for Result<T, Error> { fn await_(self) -> (r: Self) { self } }
pub struct Mutex<T> { pub v: T }
impl<T> Mutex<T> { pub fn new(v: T) -> (r: Self) ensures r.v == v { Mutex { v } } }
pub struct Arc<T> { pub v: T }
impl<T> Arc<T> { pub fn new(v: T) -> (r: Self) ensures r.v == v { Arc { v } } }
pub struct HashMap;
impl HashMap { #[verifier::external_body] pub fn default() -> (r: HashMap) { unimplemented!() } }
pub mod rpcm { pub struct MessageId { pub n: usize } impl MessageId { #[verifier::external_body] pub fn default() -> (r: MessageId) { unimplemented!() } } }
pub struct Session { pub transport_tx: Arc<Mutex<Tx>>, pub transport_rx: Arc<Mutex<Rx>>, pub context: Context, pub last_message_id: rpcm::MessageId, pub requests: Arc<Mutex<HashMap>> }
#[verifier::external_body]
pub fn try_join2(a: SendFut, b: RecvFut) -> (r: Result<((), ServerHello), Error>)
    ensures r matches Ok(((), h)) ==> hello_received(b.rx@) == Ok::<ServerHello, Error>(h)
{ unimplemented!() }

pub mod establish {
use super::*;
impl SessionId {
//@extract id=session_id_new file=netconf/src/session.rs impl=/^impl SessionId/ fn=new rules=R1,R7 r7map=result r7pathmap=result vis=pub
//@contract
        ensures res is Ok <==> n != 0, res matches Ok(sid) ==> sid.0.n == n,                     // OBL:C12.session_id.zero_is_rejected
//@end
//@extract id=session_id_from_str file=netconf/src/session.rs impl=/impl FromStr for SessionId/ fn=from_str rules=R1,R7 r7map=result r7pathmap=result vis=pub
//@+ sub=/s.parse()=>parse_dec(s);;Self::Err::=>ReadError::/
//@sig pub fn from_str(s: &str) -> (res: Result<Self, ReadError>)
//@contract
        ensures
            // C12: the session-id of a hello is accepted exactly if it is a decimal number in 1 ..= 2^32 - 1, and it is that number
            res is Ok <==> (dec_value(s) matches Some(v) && 1 <= v <= 0xFFFF_FFFF),                  // OBL:C12.session_id.valid_non_zero_32_bit
            res matches Ok(sid) ==> dec_value(s) == Some(sid.0.n as nat),                             // OBL:C12.session_id.value_is_the_hellos
//@end
}
impl ServerHello {
//@extract id=server_hello_session_id file=netconf/src/message/hello.rs impl=/^impl ServerHello/ fn=session_id rules=R1 vis=pub
//@contract
        ensures res == self.session_id,                                                         // OBL:C12.hello.session_id_accessor
//@end
//@extract id=server_hello_capabilities file=netconf/src/message/hello.rs impl=/^impl ServerHello/ fn=capabilities rules=R1 vis=pub
//@contract
        ensures res == self.capabilities,                                                       // OBL:C12.hello.capabilities_accessor
//@end
}
impl ClientHello {
//@extract id=client_hello_capabilities file=netconf/src/message/hello.rs impl=/^impl ClientHello/ fn=capabilities rules=R1 vis=pub
//@contract
        ensures res == self.capabilities,
//@end
}
impl Context {
//@extract id=context_new file=netconf/src/session.rs impl=/^impl Context/ fn=new rules=R1 vis=pub optional=1
//@contract
        ensures res.session_id == session_id, res.protocol_version == protocol_version,            // OBL:C12.context.records_what_it_is_given
                res.client_capabilities == client_capabilities, res.server_capabilities == server_capabilities,
//@end
//@extract id=context_session_id file=netconf/src/session.rs impl=/^impl Context/ fn=session_id rules=R1 vis=pub
//@contract
        ensures res == self.session_id,                                                         // OBL:C12.context.reports_the_session_id
//@end
//@extract id=context_protocol_version file=netconf/src/session.rs impl=/^impl Context/ fn=protocol_version rules=R1 vis=pub
//@contract
        ensures res == self.protocol_version,                                                   // OBL:C12.context.reports_the_negotiated_version
//@end
//@extract id=context_server_capabilities file=netconf/src/session.rs impl=/^impl Context/ fn=server_capabilities rules=R1 vis=pub
//@contract
        ensures *res == self.server_capabilities,                                               // OBL:C12.context.reports_the_server_capabilities
//@end
}
impl Session {
//@extract id=session_new file=netconf/src/session.rs impl=/^impl<T: Transport> Session<T>/ fn=new rules=R1,R2,R3 awaitcall=1 vis=pub
//@+ sub=/rpc::MessageId::default()=>rpcm::MessageId::default()/
//@sig pub fn new(transport: Transport) -> (res: Result<Self, Error>)
//@contract
        ensures
            // C12: a session is established only if the server's hello was received and parsed, and shares a base version
            // with the client; the negotiated version is the highest common one; session-id and capability set reported to
            // the user are those of the hello
            res matches Ok(sess) ==> exists|rx: Rx| (#[trigger] hello_received(rx)) matches Ok(h)
                && sess.context.session_id == h.session_id                                         // OBL:C12.session.reports_the_hellos_session_id
                && sess.context.server_capabilities == h.capabilities
                && is_highest_common(sess.context.protocol_version, sess.context.client_capabilities.inner.set@, h.capabilities.inner.set@),   // OBL:C12.session.negotiates_highest_common_version
//@end
}
} // mod establish

} // verus!
fn main() {}

// Unit A6 — the agent's load-configuration payload writers (C02, C01): verified directly on the real closure nests.
use vstd::prelude::*;
verus! {

// ---------- the XML tree written so far (ghost) ----------
pub enum TextVal {
    Lit(Seq<char>),              // a string literal of the code
    PolicyName(u64),             // the policy's name
    Address(u64),                // text of the prefix of range #id
    LengthRange(u64),            // text of "/lower-/upper" of range #id
    Opaque,                      // anything else (comment text)
}
pub enum Node {
    Elem { name: Seq<char>, attrs: Seq<(Seq<char>, TextVal)>, children: Seq<Node> },
    Text(TextVal),
}

// ---------- shims: ASSUMED contract of quick-xml's Writer / ElementWriter ----------
pub struct WriteError;
pub struct BytesText { pub t: Ghost<TextVal> }
impl BytesText {
    #[verifier::external_body]
    pub fn new(s: &Str) -> (r: BytesText) ensures r.t@ == s.t@ { unimplemented!() }
}
// &str / String values whose content matters are tracked as TextVal
pub struct Str { pub t: Ghost<TextVal> }
pub struct Writer { pub nodes: Ghost<Seq<Node>> }
pub struct ElementWriter<'a> { pub w: &'a mut Writer, pub name: Ghost<Seq<char>>, pub attrs: Ghost<Seq<(Seq<char>, TextVal)>> }
pub struct Unit;
impl Writer {
    // Writer::create_element(name): a builder for one element appended to the current content
    #[verifier::external_body]
    pub fn create_element<'a>(&'a mut self, name: &str) -> (r: ElementWriter<'a>)
        ensures r.name@ == name@, r.attrs@ == Seq::<(Seq<char>, TextVal)>::empty(),
                r.w.nodes@ == old(self).nodes@, final(self).nodes@ == final(r.w).nodes@
    { unimplemented!() }
}
impl<'a> ElementWriter<'a> {
    #[verifier::external_body]
    pub fn with_attribute(self, kv: (&str, &str)) -> (r: ElementWriter<'a>)
        ensures r.name@ == self.name@, r.attrs@ == self.attrs@.push((kv.0@, TextVal::Lit(kv.1@))),
                r.w.nodes@ == old(self.w).nodes@, final(self.w).nodes@ == final(r.w).nodes@
    { unimplemented!() }
    // <name attrs/>
    #[verifier::external_body]
    pub fn write_empty(self) -> (r: Result<Unit, WriteError>)
        ensures r is Ok ==> final(self.w).nodes@ == old(self.w).nodes@.push(Node::Elem { name: self.name@, attrs: self.attrs@, children: Seq::empty() })
    { unimplemented!() }
    // <name attrs>text</name>
    #[verifier::external_body]
    pub fn write_text_content(self, text: BytesText) -> (r: Result<Unit, WriteError>)
        ensures r is Ok ==> final(self.w).nodes@ == old(self.w).nodes@.push(Node::Elem { name: self.name@, attrs: self.attrs@, children: Seq::<Node>::empty().push(Node::Text(text.t@)) })
    { unimplemented!() }
    // <name attrs> ...whatever the closure writes... </name>; the closure sees the element's (initially empty) content
    #[verifier::external_body]
    pub fn write_inner_content<F: FnOnce(&mut Writer) -> Result<(), WriteError>>(self, f: F) -> (r: Result<Unit, WriteError>)
        requires forall|w: &mut Writer| (*w).nodes@ == Seq::<Node>::empty() ==> #[trigger] f.requires((w,)),
        ensures r is Ok ==> exists|w: &mut Writer| (*w).nodes@ == Seq::<Node>::empty() && #[trigger] f.ensures((w,), Ok(()))
            && final(self.w).nodes@ == old(self.w).nodes@.push(Node::Elem { name: self.name@, attrs: self.attrs@, children: (*final(w)).nodes@ })
    { unimplemented!() }
}

// ---------- shims: ip / generic-ip ----------
pub mod ip { pub mod concrete { pub enum Afi { Ipv4, Ipv6 } } }
pub trait Afi {
    spec fn spec_afi() -> ip::concrete::Afi;
    fn as_afi() -> (r: ip::concrete::Afi) ensures r == Self::spec_afi();
}
pub struct Ipv4; pub struct Ipv6;
impl Afi for Ipv4 { open spec fn spec_afi() -> ip::concrete::Afi { ip::concrete::Afi::Ipv4 } #[verifier::external_body] fn as_afi() -> (r: ip::concrete::Afi) { unimplemented!() } }
impl Afi for Ipv6 { open spec fn spec_afi() -> ip::concrete::Afi { ip::concrete::Afi::Ipv6 } #[verifier::external_body] fn as_afi() -> (r: ip::concrete::Afi) { unimplemented!() } }
// PrefixRange<A>: identified by `id`; its textual rendering is tracked symbolically
pub struct PrefixRange<A: Afi> { pub id: u64, pub _a: core::marker::PhantomData<A> }
pub struct PrefixOf { pub id: Ghost<u64> }
pub struct LenOf { pub id: Ghost<u64>, pub upper: bool }
impl<A: Afi> PrefixRange<A> {
    #[verifier::external_body] pub fn prefix(&self) -> (r: PrefixOf) ensures r.id@ == self.id { unimplemented!() }
    #[verifier::external_body] pub fn lower(&self) -> (r: LenOf) ensures r.id@ == self.id, !r.upper { unimplemented!() }
    #[verifier::external_body] pub fn upper(&self) -> (r: LenOf) ensures r.id@ == self.id, r.upper { unimplemented!() }
}
impl PrefixOf {
    #[verifier::external_body] pub fn to_string(&self) -> (r: Str) ensures r.t@ == TextVal::Address(self.id@) { unimplemented!() }
}
// format!("/{}-/{}", range.lower(), range.upper())
#[verifier::external_body]
pub fn format_len_range(lo: LenOf, hi: LenOf) -> (r: Str)
    ensures (lo.id@ == hi.id@ && !lo.upper && hi.upper) ==> r.t@ == TextVal::LengthRange(lo.id@)
{ unimplemented!() }
// a &'static str used as text
#[verifier::external_body]
pub fn lit(s: &str) -> (r: Str) ensures r.t@ == TextVal::Lit(s@) { unimplemented!() }

// ---------- spec: what one <route-filter> element must look like (Junos policy-options schema) ----------
// (sequences in specs are written as push chains: that is the shape the writer contracts produce, so no extensionality hints are needed)
pub open spec fn leaf(name: Seq<char>, t: TextVal) -> Node { Node::Elem { name, attrs: Seq::empty(), children: Seq::<Node>::empty().push(Node::Text(t)) } }
pub open spec fn delete_attr() -> Seq<(Seq<char>, TextVal)> { Seq::<(Seq<char>, TextVal)>::empty().push(("delete"@, TextVal::Lit("delete"@))) }
pub open spec fn route_filter_node(id: u64, delete: bool) -> Node {
    Node::Elem {
        name: "route-filter"@,
        attrs: if delete { delete_attr() } else { Seq::empty() },
        children: Seq::<Node>::empty().push(leaf("address"@, TextVal::Address(id))).push(leaf("prefix-length-range"@, TextVal::LengthRange(id))),
    }
}
pub open spec fn afi_text(a: ip::concrete::Afi) -> Seq<char> { match a { ip::concrete::Afi::Ipv4 => "inet"@, ip::concrete::Afi::Ipv6 => "inet6"@ } }

//@extract id=afi_name file=junos-agent/src/policies/load.rs fn=afi_name rules=R1
//@+ sub=/BytesText::new(name)=>BytesText::new(&lit(name))/
//@sig pub fn afi_name<A: Afi>() -> (res: BytesText)
//@contract
    ensures res.t@ == TextVal::Lit(afi_text(A::spec_afi())),                              // OBL:C02.afi_name.family_text
//@end

//@extract id=write_route_filter file=junos-agent/src/policies/load.rs fn=write_route_filter rules=R1,R7,R17
//@+ sub=/&format!(=>&format_len_range(;;"\/{}-\/{}",=>/
//@sig pub fn write_route_filter<A: Afi>(writer: &mut Writer, range: &PrefixRange<A>, delete: bool) -> (res: Result<(), WriteError>)
//@contract
    ensures res is Ok ==> final(writer).nodes@ == old(writer).nodes@.push(route_filter_node(range.id, delete)),   // OBL:C02.route_filter.exact_shape
//@closure 1
            -> (r: Result<(), WriteError>)
            ensures r is Ok ==> final(writer).nodes@ == old(writer).nodes@
                .push(leaf("address"@, TextVal::Address(range.id))).push(leaf("prefix-length-range"@, TextVal::LengthRange(range.id)))
//@end

// ---------- shims: Ranges<A> (HashSet<PrefixRange<A>>) and its iterators ----------
pub open spec fn is_empty_set(s: Set<u64>) -> bool { forall|x: u64| !s.contains(x) }
pub open spec fn is_listing(l: Seq<u64>, s: Set<u64>) -> bool { l.no_duplicates() && forall|x: u64| #[trigger] l.contains(x) <==> s.contains(x) }
// HashSet iteration order: an ARBITRARY (uninterpreted) function of the set's contents; every property proved below
// therefore holds for every order.  (Assumption: order is modelled as a function of the contents.)
pub uninterp spec fn order_of(s: Set<u64>) -> Seq<u64>;
pub uninterp spec fn order_of_diff(a: Set<u64>, b: Set<u64>) -> Seq<u64>;
#[verifier::external_body]
pub broadcast proof fn axiom_order_of(s: Set<u64>) ensures is_listing(#[trigger] order_of(s), s) {}
#[verifier::external_body]
pub broadcast proof fn axiom_order_of_diff(a: Set<u64>, b: Set<u64>) ensures is_listing(#[trigger] order_of_diff(a, b), a.difference(b)) {}

// HashSet<PrefixRange<A>> (the `inner` of Ranges): ghost set of range ids
pub struct RangeSet<A: Afi> { pub set: Ghost<Set<u64>>, pub _a: core::marker::PhantomData<A> }
pub struct Ranges<A: Afi> { pub inner: RangeSet<A> }
pub struct RangeIter<'a, A: Afi> { pub elems: Ghost<Seq<u64>>, pub done: Ghost<Seq<u64>>, pub _a: core::marker::PhantomData<&'a A> }
impl<A: Afi> RangeSet<A> {
    // std HashSet::difference / len / iter / is_empty
    #[verifier::external_body]
    pub fn difference<'a>(&'a self, other: &'a Self) -> (r: RangeIter<'a, A>)
        ensures r.elems@ == order_of_diff(self.set@, other.set@), r.done@ == Seq::<u64>::empty()
    { unimplemented!() }
    #[verifier::external_body]
    pub fn len(&self) -> (r: usize) ensures r == self.set@.len() { unimplemented!() }
    #[verifier::external_body]
    pub fn is_superset(&self, other: &Self) -> (r: bool) ensures r == other.set@.subset_of(self.set@) { unimplemented!() }
    #[verifier::external_body]
    pub fn is_subset(&self, other: &Self) -> (r: bool) ensures r == self.set@.subset_of(other.set@) { unimplemented!() }
    #[verifier::external_body]
    pub fn is_empty(&self) -> (r: bool) ensures r == is_empty_set(self.set@) { unimplemented!() }
}
impl<A: Afi> Ranges<A> {
    pub open spec fn view_set(&self) -> Set<u64> { self.inner.set@ }
    #[verifier::external_body]
    pub fn is_empty(&self) -> (r: bool) ensures r == is_empty_set(self.inner.set@) { unimplemented!() }
    #[verifier::external_body]
    pub fn iter(&self) -> (r: RangeIter<'_, A>) ensures r.elems@ == order_of(self.inner.set@), r.done@ == Seq::<u64>::empty() { unimplemented!() }
//@extract id=ranges_diff file=junos-agent/src/policies/mod.rs impl=/^impl<A: Afi> Ranges<A>/ fn=diff rules=R1 vis=pub
//@sig pub fn diff<'a>(&'a self, other: &'a Self) -> (res: RangeIter<'a, A>)
//@contract
        // C01 / C02: what `new.diff(old)` / `old.diff(new)` iterate is exactly the set difference in that direction
        ensures res.elems@ == order_of_diff(self.inner.set@, other.inner.set@), res.done@ == Seq::<u64>::empty(),   // OBL:C01+C02.ranges.diff_is_the_set_difference
//@end
}
impl<'a, A: Afi> RangeIter<'a, A> {
    pub open spec fn wf(&self) -> bool { self.done@.len() <= self.elems@.len() && self.done@ =~= self.elems@.take(self.done@.len() as int) }
    #[verifier::external_body]
    pub fn next(&mut self) -> (r: Option<&'a PrefixRange<A>>)
        requires old(self).wf(),
        ensures final(self).wf(), final(self).elems@ == old(self).elems@,
            match r {
                Some(x) => old(self).done@.len() < old(self).elems@.len() && x.id == old(self).elems@[old(self).done@.len() as int]
                           && final(self).done@ == old(self).done@.push(x.id),
                None => old(self).done@ == old(self).elems@ && final(self).done@ == old(self).done@,
            }
    { unimplemented!() }
}

// ---------- spec: the <term> element for one address family ----------
pub open spec fn append_rfs(base: Seq<Node>, ids: Seq<u64>, delete: bool) -> Seq<Node>
    decreases ids.len()
{
    if ids.len() == 0 { base } else { append_rfs(base, ids.drop_last(), delete).push(route_filter_node(ids.last(), delete)) }
}
pub broadcast proof fn lemma_append_rfs_push(base: Seq<Node>, ids: Seq<u64>, x: u64, delete: bool)
    ensures #[trigger] append_rfs(base, ids.push(x), delete) == append_rfs(base, ids, delete).push(route_filter_node(x, delete)),
{
    assert(ids.push(x).drop_last() =~= ids);
}
pub open spec fn family_base(a: ip::concrete::Afi) -> Seq<Node> { Seq::<Node>::empty().push(leaf("family"@, TextVal::Lit(afi_text(a)))) }
pub open spec fn empty_elem(name: Seq<char>) -> Node { Node::Elem { name, attrs: Seq::empty(), children: Seq::empty() } }
pub open spec fn then_node(action: Seq<char>) -> Node { Node::Elem { name: "then"@, attrs: Seq::empty(), children: Seq::<Node>::empty().push(empty_elem(action)) } }
pub open spec fn from_children(a: ip::concrete::Afi, dels: Seq<u64>, adds: Seq<u64>) -> Seq<Node> {
    append_rfs(append_rfs(family_base(a), dels, true), adds, false)
}
pub open spec fn term_children(a: ip::concrete::Afi, body: Option<(Seq<u64>, Seq<u64>)>) -> Seq<Node> {
    match body {
        None => Seq::<Node>::empty().push(leaf("name"@, TextVal::Lit(afi_text(a)))),
        Some(da) => Seq::<Node>::empty().push(leaf("name"@, TextVal::Lit(afi_text(a))))
            .push(Node::Elem { name: "from"@, attrs: Seq::empty(), children: from_children(a, da.0, da.1) })
            .push(then_node("accept"@)),
    }
}
pub open spec fn term_node(a: ip::concrete::Afi, delete: bool, body: Option<(Seq<u64>, Seq<u64>)>) -> Node {
    Node::Elem { name: "term"@, attrs: if delete { delete_attr() } else { Seq::empty() }, children: term_children(a, body) }
}
pub open spec fn dels_of(old: Option<Set<u64>>, new: Set<u64>) -> Seq<u64> { match old { Some(o) => order_of_diff(o, new), None => Seq::<u64>::empty() } }
pub open spec fn adds_of(old: Option<Set<u64>>, new: Set<u64>) -> Seq<u64> { match old { Some(o) => order_of_diff(new, o), None => order_of(new) } }
// what Differences::write_xml must emit (from C01 / C02), as an edit descriptor for one family's term:
//  * nothing installed and nothing wanted      -> NoChange: nothing is written (an empty <term> would create an unreadable, action-less term)
//  * something installed, nothing wanted       -> Delete:   <term delete="delete"><name>A</name></term>
//  * something wanted                          -> Merge:    <term><name>A</name><from><family>A</family> -(old\\new) +(new\\old) </from><then><accept/></then></term>
pub enum TermEdit { NoChange, Delete, Merge { dels: Seq<u64>, adds: Seq<u64> } }
pub open spec fn term_edit(old: Option<Set<u64>>, new: Set<u64>) -> TermEdit {
    let installed = old matches Some(o) && !is_empty_set(o);
    if is_empty_set(new) { if installed { TermEdit::Delete } else { TermEdit::NoChange } }
    else { TermEdit::Merge { dels: dels_of(old, new), adds: adds_of(old, new) } }
}
pub open spec fn term_emitted(n0: Seq<Node>, a: ip::concrete::Afi, old: Option<Set<u64>>, new: Set<u64>) -> Seq<Node> {
    match term_edit(old, new) {
        TermEdit::NoChange => n0,
        TermEdit::Delete => n0.push(term_node(a, true, None)),
        TermEdit::Merge { dels, adds } => n0.push(term_node(a, false, Some((dels, adds)))),
    }
}

// ---------- ASSUMED reference semantics of the router (Junos `load-configuration action="merge"` on the ephemeral
// instance), at the level of the element descriptors above: a term with delete="delete" is removed; otherwise the term is
// created if absent and merged: <family> sets the match family, every <route-filter delete="delete"> removes that range,
// every other <route-filter> adds it, <then><accept/> sets the action.
pub struct TermSt { pub family: Option<ip::concrete::Afi>, pub ranges: Set<u64>, pub accept: bool }
pub open spec fn apply_term_edit(pre: Option<TermSt>, a: ip::concrete::Afi, e: TermEdit) -> Option<TermSt> {
    match e {
        TermEdit::NoChange => pre,
        TermEdit::Delete => None,
        TermEdit::Merge { dels, adds } => Some(TermSt {
            family: Some(a),
            ranges: (match pre { Some(t) => t.ranges, None => Set::<u64>::empty() }).difference(dels.to_set()).union(adds.to_set()),
            accept: true,
        }),
    }
}
// the state the agent fetched for this family ("installed"): no term when nothing is installed, else a complete term
pub open spec fn fetched_term(a: ip::concrete::Afi, old: Option<Set<u64>>) -> Option<TermSt> {
    match old { Some(o) => if is_empty_set(o) { None } else { Some(TermSt { family: Some(a), ranges: o, accept: true }) }, None => None }
}
// what fetch.rs accepts for a term (Term::borrowed_read_xml): name, from/family == name, then/accept
pub open spec fn term_readable(a: ip::concrete::Afi, t: Option<TermSt>) -> bool { t matches Some(x) ==> x.family == Some(a) && x.accept }

// C01 (per family): applied to the state it fetched, the edit yields a term accepting exactly the evaluated ranges - or no term
// when there are none - which the agent can read back; C02: an accepting term is restricted to the family and to ranges of the
// evaluated set, and is never empty; idempotence: with unchanged inputs the state is unchanged.
pub proof fn lemma_term_converges(a: ip::concrete::Afi, old: Option<Set<u64>>, new: Set<u64>)
    ensures ({
        let post = apply_term_edit(fetched_term(a, old), a, term_edit(old, new));
        &&& post == (if is_empty_set(new) { None::<TermSt> } else { Some(TermSt { family: Some(a), ranges: new, accept: true }) })   // OBL:C01.term.converges
        &&& term_readable(a, post)                                                                                                   // OBL:C01.term.readable
        &&& (post matches Some(t) ==> (t.accept ==> t.family == Some(a) && !is_empty_set(t.ranges) && t.ranges.subset_of(new)))      // OBL:C02+C01.term.no_fail_open
        &&& (old == Some(new) ==> post == fetched_term(a, old))                                                                      // OBL:C01.term.idempotent
    }),
{
    broadcast use {axiom_order_of, axiom_order_of_diff};
    if !is_empty_set(new) {
        let dels = dels_of(old, new);
        let adds = adds_of(old, new);
        let pre_r = match fetched_term(a, old) { Some(t) => t.ranges, None => Set::<u64>::empty() };
        let r = pre_r.difference(dels.to_set()).union(adds.to_set());
        assert forall|x: u64| r.contains(x) <==> new.contains(x) by {
            match old {
                Some(o) => {
                    assert(dels.contains(x) <==> o.difference(new).contains(x));
                    assert(adds.contains(x) <==> new.difference(o).contains(x));
                    if is_empty_set(o) { assert(!o.contains(x)); }
                }
                None => { assert(adds.contains(x) <==> new.contains(x)); assert(!dels.contains(x)); }
            }
        }
        assert(r =~= new);
    }
}

pub open spec fn old_set<A: Afi>(d: Differences<A>) -> Option<Set<u64>> { match d.old { Some(o) => Some(o.inner.set@), None => None } }

//@item file=junos-agent/src/policies/mod.rs kind=struct name=Differences sub=/pub(crate) =>pub ;old:=>pub old:;new:=>pub new:/

pub mod writers {
use super::*;
broadcast use {lemma_append_rfs_push, axiom_order_of, axiom_order_of_diff};

impl<'a, A: Afi> Differences<'a, A> {
//@extract id=differences_write_xml file=junos-agent/src/policies/load.rs impl=/impl<A: Afi> WriteXml for Differences<'_, A>/ fn=write_xml rules=R1,R7,R17,R18,R29 r7map=result
//@+ sub=/write_route_filter::<_, A>=>write_route_filter::<A>/
//@sig pub fn write_xml(&self, writer: &mut Writer) -> (res: Result<(), WriteError>)
//@contract
        ensures res is Ok ==> final(writer).nodes@ == term_emitted(old(writer).nodes@, A::spec_afi(), old_set(*self), self.new.inner.set@),   // OBL:C01.term.emitted_exactly
//@closure 1
            -> (r: Result<(), WriteError>)
            requires writer.nodes@ == Seq::<Node>::empty(),
            ensures r is Ok ==> final(writer).nodes@ == term_children(A::spec_afi(),
                if is_empty_set(self.new.inner.set@) { None } else { Some((dels_of(old_set(*self), self.new.inner.set@), adds_of(old_set(*self), self.new.inner.set@))) })   // OBL:C02+C01.term.children
//@closure 2
                    -> (r: Result<(), WriteError>)
                    requires writer.nodes@ == Seq::<Node>::empty(),
                    ensures r is Ok ==> final(writer).nodes@ == from_children(A::spec_afi(), dels_of(old_set(*self), self.new.inner.set@), adds_of(old_set(*self), self.new.inner.set@))   // OBL:C02+C01.term.from_children
//@loop 1
                            invariant
                                self.old is None, it__0.wf(), it__0.elems@ == order_of(self.new.inner.set@),
                                writer.nodes@ == append_rfs(family_base(A::spec_afi()), it__0.done@, false),     // OBL:C02+C01.term.adds_only_new
                            ensures
                                writer.nodes@ == append_rfs(family_base(A::spec_afi()), order_of(self.new.inner.set@), false),
                            decreases it__0.elems@.len() - it__0.done@.len(),
//@loop 2
                            invariant
                                self.old matches Some(o) && it__1.elems@ == order_of_diff(o.inner.set@, self.new.inner.set@), it__1.wf(),
                                writer.nodes@ == append_rfs(family_base(A::spec_afi()), it__1.done@, true),      // OBL:C02+C01.term.deletes_old_minus_new
                            ensures
                                writer.nodes@ == append_rfs(family_base(A::spec_afi()), dels_of(old_set(*self), self.new.inner.set@), true),
                            decreases it__1.elems@.len() - it__1.done@.len(),
//@loop 3
                            invariant
                                self.old matches Some(o) && it__2.elems@ == order_of_diff(self.new.inner.set@, o.inner.set@), it__2.wf(),
                                writer.nodes@ == append_rfs(append_rfs(family_base(A::spec_afi()), dels_of(old_set(*self), self.new.inner.set@), true), it__2.done@, false),  // OBL:C02+C01.term.adds_new_minus_old
                            ensures
                                writer.nodes@ == from_children(A::spec_afi(), dels_of(old_set(*self), self.new.inner.set@), adds_of(old_set(*self), self.new.inner.set@)),
                            decreases it__2.elems@.len() - it__2.done@.len(),
//@closure 3
                    -> (r: Result<(), WriteError>)
                    requires writer.nodes@ == Seq::<Node>::empty(),
                    ensures r is Ok ==> final(writer).nodes@ == Seq::<Node>::empty().push(empty_elem("accept"@))
//@end
}
} // mod writers

// ---------- Update::write_xml: the whole <configuration> payload of one load-configuration request ----------
pub struct MpFilterExpr { pub id: u64 }
pub struct Name { pub id: u64 }
impl Name {
    #[verifier::external_body]
    pub fn as_ref(&self) -> (r: &Str) ensures r.t@ == TextVal::PolicyName(self.id) { unimplemented!() }
}
// chrono / format!: the comment text is abstracted to one uninterpreted constant (no property looks at it)
pub uninterp spec fn opaque_text() -> Seq<char>;
pub struct DateTime;
pub struct Formatted;
pub struct Utc;
impl DateTime {
    #[verifier::external_body] pub fn unix_epoch() -> (r: DateTime) { unimplemented!() }
    #[verifier::external_body] pub fn format(&self, f: &str) -> (r: Formatted) { unimplemented!() }
}
impl Utc { #[verifier::external_body] pub fn now() -> (r: DateTime) { unimplemented!() } }
pub struct CommentString;
impl CommentString { #[verifier::external_body] pub fn as_str(&self) -> (r: &str) ensures r@ == opaque_text() { unimplemented!() } }
#[verifier::external_body] pub fn format_comment(now: &Formatted, e: &MpFilterExpr) -> (r: CommentString) { unimplemented!() }
#[verifier::external_body] pub fn cfg_test() -> (r: bool) { unimplemented!() }

//@item file=junos-agent/src/policies/mod.rs kind=enum name=Update sub=/pub(crate) =>pub /

pub open spec fn comment_attr() -> Seq<(Seq<char>, TextVal)> { Seq::<(Seq<char>, TextVal)>::empty().push(("junos:comment"@, TextVal::Lit(opaque_text()))) }
pub open spec fn name_leaf(u: Update) -> Node {
    leaf("name"@, TextVal::PolicyName(match u { Update::Delete { name } => name.id, Update::Update { name, .. } => name.id }))
}
// from C02: the payload touches nothing but configuration/policy-options/policy-statement[name]; an update rewrites the two
// family terms and always ends in an unconditional <then><reject/></then>; a delete carries delete="delete" and the name only.
pub open spec fn policy_children(u: Update) -> Seq<Node> {
    match u {
        Update::Delete { .. } => Seq::<Node>::empty().push(name_leaf(u)),
        Update::Update { ipv4, ipv6, .. } =>
            term_emitted(
                term_emitted(Seq::<Node>::empty().push(name_leaf(u)), ip::concrete::Afi::Ipv4, old_set(ipv4), ipv4.new.inner.set@),
                ip::concrete::Afi::Ipv6, old_set(ipv6), ipv6.new.inner.set@,
            ).push(then_node("reject"@)),
    }
}
pub open spec fn policy_attrs(u: Update) -> Seq<(Seq<char>, TextVal)> { match u { Update::Delete { .. } => delete_attr(), Update::Update { .. } => comment_attr() } }
pub open spec fn policy_node(u: Update) -> Node { Node::Elem { name: "policy-statement"@, attrs: policy_attrs(u), children: policy_children(u) } }
pub open spec fn config_node(u: Update) -> Node {
    Node::Elem { name: "configuration"@, attrs: Seq::empty(), children: Seq::<Node>::empty().push(
        Node::Elem { name: "policy-options"@, attrs: Seq::empty(), children: Seq::<Node>::empty().push(policy_node(u)) }) }
}


// ---------- policy level (ASSUMED router semantics as above): delete="delete" removes the policy statement; otherwise it is
// created if absent, each family term is edited as described, and <then><reject/> sets the final action.
pub struct PolicySt { pub inet: Option<TermSt>, pub inet6: Option<TermSt>, pub reject: bool }
pub open spec fn apply_update(pre: Option<PolicySt>, u: Update) -> Option<PolicySt> {
    match u {
        Update::Delete { .. } => None,
        Update::Update { ipv4, ipv6, .. } => Some(PolicySt {
            inet: apply_term_edit(match pre { Some(p) => p.inet, None => None }, ip::concrete::Afi::Ipv4, term_edit(old_set(ipv4), ipv4.new.inner.set@)),
            inet6: apply_term_edit(match pre { Some(p) => p.inet6, None => None }, ip::concrete::Afi::Ipv6, term_edit(old_set(ipv6), ipv6.new.inner.set@)),
            reject: true,
        }),
    }
}
// the policy the agent fetched: `installed` (both families present, possibly empty) or no policy at all
pub open spec fn fetched_policy(old4: Option<Set<u64>>, old6: Option<Set<u64>>) -> Option<PolicySt> {
    if old4 is None && old6 is None { None } else {
        Some(PolicySt { inet: fetched_term(ip::concrete::Afi::Ipv4, old4), inet6: fetched_term(ip::concrete::Afi::Ipv6, old6), reject: true })
    }
}
pub open spec fn accepted(t: Option<TermSt>) -> Set<u64> { match t { Some(x) => if x.accept { x.ranges } else { Set::<u64>::empty() }, None => Set::<u64>::empty() } }
// what Maybe<Installed>::read_xml accepts: default reject, every term readable
pub open spec fn policy_readable(p: PolicySt) -> bool {
    p.reject && term_readable(ip::concrete::Afi::Ipv4, p.inet) && term_readable(ip::concrete::Afi::Ipv6, p.inet6)
}
pub proof fn lemma_update_converges(u: Update)
    requires u is Update,
    ensures ({
        let ipv4 = u->ipv4; let ipv6 = u->ipv6;
        let post = apply_update(fetched_policy(old_set(ipv4), old_set(ipv6)), u);
        &&& post is Some
        &&& accepted(post->Some_0.inet) =~= ipv4.new.inner.set@ && accepted(post->Some_0.inet6) =~= ipv6.new.inner.set@   // OBL:C01.policy.accepts_exactly_evaluated
        &&& policy_readable(post->Some_0)                                                                    // OBL:C01.policy.readable_by_agent
        &&& post->Some_0.reject                                                                              // OBL:C02.policy.ends_in_reject
        &&& (old_set(ipv4) == Some(ipv4.new.inner.set@) && old_set(ipv6) == Some(ipv6.new.inner.set@)
                ==> post == fetched_policy(old_set(ipv4), old_set(ipv6)))                                    // OBL:C01.policy.idempotent
    }),
{
    let ipv4 = u->ipv4; let ipv6 = u->ipv6;
    lemma_term_converges(ip::concrete::Afi::Ipv4, old_set(ipv4), ipv4.new.inner.set@);
    lemma_term_converges(ip::concrete::Afi::Ipv6, old_set(ipv6), ipv6.new.inner.set@);
}
pub proof fn lemma_delete_removes(u: Update, pre: Option<PolicySt>)
    requires u is Delete,
    ensures apply_update(pre, u) is None,                                                                    // OBL:C01.policy.delete_removes
{
}

pub mod update_writer {
use super::*;
impl<'u> Update<'u> {
//@extract id=update_name file=junos-agent/src/policies/load.rs impl=/^impl Update<'_>/ fn=name rules=R1
//@sig pub fn name(&self) -> (res: BytesText)
//@contract
        ensures Node::Text(res.t@) == name_leaf(*self)->children[0],
//@end
//@extract id=update_policy_stmt_elem file=junos-agent/src/policies/load.rs impl=/^impl Update<'_>/ fn=policy_stmt_elem rules=R1
//@+ sub=/cfg!(test)=>cfg_test();;DateTime::UNIX_EPOCH=>DateTime::unix_epoch();;format!("Last updated at {now} from mp-filter expression {filter_expr}")=>format_comment(&now, filter_expr)/
//@sig pub fn policy_stmt_elem<'a>(&self, writer: &'a mut Writer) -> (res: ElementWriter<'a>)
//@contract
        ensures res.name@ == "policy-statement"@, res.attrs@ == policy_attrs(*self),                    // OBL:C02+C03.policy.delete_or_comment_attr
                res.w.nodes@ == old(writer).nodes@, final(writer).nodes@ == final(res.w).nodes@,
//@end
//@extract id=update_write_xml file=junos-agent/src/policies/load.rs impl=/impl WriteXml for Update<'_>/ fn=write_xml rules=R1,R7,R17,R29 r7map=result
//@sig pub fn write_xml(&self, writer: &mut Writer) -> (res: Result<(), WriteError>)
//@contract
        ensures res is Ok ==> final(writer).nodes@ == old(writer).nodes@.push(config_node(*self)),          // OBL:C02.update.payload_exactly
//@closure 1
                -> (r: Result<(), WriteError>)
                requires writer.nodes@ == Seq::<Node>::empty(),
                ensures r is Ok ==> final(writer).nodes@ == Seq::<Node>::empty().push(
                    Node::Elem { name: "policy-options"@, attrs: Seq::empty(), children: Seq::<Node>::empty().push(policy_node(*self)) })   // OBL:C02.update.only_policy_options
//@closure 2
                        -> (r: Result<(), WriteError>)
                        requires writer.nodes@ == Seq::<Node>::empty(),
                        ensures r is Ok ==> final(writer).nodes@ == Seq::<Node>::empty().push(policy_node(*self))    // OBL:C02.update.only_one_policy_statement
//@closure 3
                                -> (r: Result<(), WriteError>)
                                requires writer.nodes@ == Seq::<Node>::empty(),
                                ensures r is Ok ==> final(writer).nodes@ == policy_children(*self)                 // OBL:C02.update.policy_children
//@closure 4
                                                -> (r: Result<(), WriteError>)
                                                requires writer.nodes@ == Seq::<Node>::empty(),
                                                ensures r is Ok ==> final(writer).nodes@ == Seq::<Node>::empty().push(empty_elem("reject"@))   // OBL:C02.update.trailing_reject
//@end
}
} // mod update_writer

} // verus!
fn main() {}

// Unit A9 — evaluator robustness (C15; with_connection also serves C17's "evaluator remains usable").
use vstd::prelude::*;
// unreachable!(..) with a message that formats its arguments: the message is dropped, the obligation "never reached" stays
#[allow(unused_macros)]
macro_rules! unreachable { ($($t:tt)*) => { crate::unreachable_() } }
verus! {
#[verifier::external_body]
pub fn unreachable_() -> !
    requires false,
{ loop {} }

// ---------- shims ----------
pub struct Connection { pub id: u64 }
pub struct PeerAs;
pub struct Any;
pub struct PrefixSet<A> { pub _a: core::marker::PhantomData<A> }
impl<A> core::default::Default for PrefixSet<A> { #[verifier::external_body] fn default() -> (r: Self) { unimplemented!() } }
// irrc / rpsl types named by sink_error
pub struct AutNum;
pub enum Query { Ipv4Routes(AutNum), Ipv6Routes(AutNum), AsSetMembersRecursive(u64), RouteSetMembersRecursive(u64), RpslObject(u64, u64), Other }
pub mod irrc {
    pub mod error { pub enum Response { KeyNotFound, KeyNotUnique, Other } }
    pub enum Error { ResponseErr(super::Query, error::Response), Other }
}
// &(dyn std::error::Error + Send + Sync + 'static): what the error "really is" is ghost (arbitrary); downcast_ref::<T>() tells
pub struct DynError;
pub uninterp spec fn lib_of(e: &DynError) -> Option<Error>;          // Some iff the error is a bgpfu::Error
pub uninterp spec fn irr_of(e: &DynError) -> Option<irrc::Error>;    // Some iff the error is an irrc::Error
pub trait Downcast: Sized { spec fn of(e: &DynError) -> Option<Self>; }
impl Downcast for Error { open spec fn of(e: &DynError) -> Option<Self> { lib_of(e) } }
impl Downcast for irrc::Error { open spec fn of(e: &DynError) -> Option<Self> { irr_of(e) } }
impl DynError {
    // <dyn Error>::downcast_ref::<T>
    #[verifier::external_body]
    pub fn downcast_ref<T: Downcast>(&self) -> (r: Option<&T>)
        ensures match r { Some(x) => T::of(self) == Some(*x), None => T::of(self) is None }
    { unimplemented!() }
}
// the IRR error an error item carries, directly or wrapped in bgpfu::Error::Irr
pub open spec fn irr_view(e: &DynError) -> Option<irrc::Error> {
    match lib_of(e) { Some(Error::Irr(x)) => Some(x), _ => irr_of(e) }
}
// C03: "the IRR does not know this route-set / filter-set" - the answer to the set query itself is KeyNotFound
pub open spec fn unknown_set(e: &DynError) -> bool {
    irr_view(e) matches Some(irrc::Error::ResponseErr(q, irrc::error::Response::KeyNotFound)) && (q is RouteSetMembersRecursive || q is RpslObject)
}
// lib/src/error.rs (data carrier; only the variants used here)
pub enum Error { Irr(irrc::Error), AcquireConnection, UnresolvablePeerAs, Other }
pub struct RpslEvaluator { pub conn: Option<Connection> }

impl RpslEvaluator {
    // rpsl::expr::eval::Evaluator::collect_result (default method): an Ok item is kept; an Err item is handed to sink_error and is
    // either swallowed (Ok(None)) or propagated
    #[verifier::external_body]
    pub fn collect_result<T, E>(&mut self, r: Result<T, E>) -> (res: Result<Option<T>, Error>)
        ensures *final(self) == *old(self), match r { Ok(v) => res == Ok::<Option<T>, Error>(Some(v)), Err(_) => res is Err || res == Ok::<Option<T>, Error>(None) }
    { unimplemented!() }
//@extract id=sink_error file=lib/src/query.rs impl=/impl<'a> Evaluator<'a> for RpslEvaluator/ fn=sink_error rules=R1,R2 vis=pub
//@sig pub fn sink_error(&mut self, err: &DynError) -> (res: bool)
//@contract
        // C15: whatever error an item of an IRR response carries, classifying it never panics (the evaluation task is shared by all
        // policies) and leaves the evaluator untouched
        ensures *final(self) == *old(self),                                                    // OBL:C15.sink_error.evaluator_untouched
                // C03: sinking an error means "carry on without that item"; the error that says the IRR does not know the
                // route-set / filter-set itself must not be sunk, or the expression silently evaluates to the empty set
                unknown_set(err) ==> !res,                                                     // OBL:C03.sink_error.unknown_set_is_not_swallowed
//@end
//@extract id=resolve_peer_as file=lib/src/query.rs impl=/Resolver<'_, PeerAs, PrefixSet<Any>> for RpslEvaluator/ fn=resolve rules=R1
//@sig pub fn resolve_peer_as(&mut self, _peer_as: &PeerAs) -> (res: Result<PrefixSet<Any>, Error>)
//@contract
        // C15: a construct the evaluator does not support is an evaluation error of that one policy, never a panic
        // (a panic kills the evaluation task and aborts the whole run); the evaluator itself is left untouched
        ensures res is Err, *final(self) == *old(self),                                        // OBL:C15+C03.peer_as.error_not_panic
//@end

//@extract id=with_connection file=lib/src/query.rs impl=/^impl RpslEvaluator/ fn=with_connection rules=R1,R7,R17 r7map=result
//@+ sub=/.map_err(Into::into)=>.map_err(|e| e.into())/
//@sig pub fn with_connection<F, T, E>(&mut self, f: F) -> (res: Result<T, Error>) where F: Fn(&mut Self, &mut Connection) -> Result<T, E>, E: Into<Error>
//@contract
        requires
            forall|s: &mut Self, c: &mut Connection| #[trigger] f.requires((s, c)),
            // a resolver closure does not install a connection itself
            forall|s: &mut Self, c: &mut Connection, r: Result<T, E>| #[trigger] f.ensures((s, c), r) ==> (*final(s)).conn is None || (*s).conn is Some,
        ensures
            // C15/C17: whether the resolver succeeded or failed, the connection is put back: the evaluator stays usable
            // for the remaining policies
            old(self).conn is Some ==> final(self).conn is Some,                               // OBL:C15.with_connection.restored_on_every_path
            old(self).conn is None ==> res is Err,
//@end
}

} // verus!
fn main() {}

// Unit A9 — evaluator robustness (C15; with_connection also serves C17's "evaluator remains usable").
use vstd::prelude::*;
verus! {

// ---------- shims ----------
pub struct Connection { pub id: u64 }
pub struct PeerAs;
pub struct Any;
pub struct PrefixSet<A> { pub _a: core::marker::PhantomData<A> }
// lib/src/error.rs (data carrier; only the variants used here)
pub enum Error { AcquireConnection, UnresolvablePeerAs, Other }
pub struct RpslEvaluator { pub conn: Option<Connection> }

impl RpslEvaluator {
//@extract id=resolve_peer_as file=lib/src/query.rs impl=/Resolver<'_, PeerAs, PrefixSet<Any>> for RpslEvaluator/ fn=resolve rules=R1
//@sig pub fn resolve_peer_as(&mut self, _peer_as: &PeerAs) -> (res: Result<PrefixSet<Any>, Error>)
//@contract
        // C15: a construct the evaluator does not support is an evaluation error of that one policy, never a panic
        // (a panic kills the evaluation task and aborts the whole run); the evaluator itself is left untouched
        ensures res is Err, *final(self) == *old(self),                                        // OBL:C15.peer_as.error_not_panic
//@end

//@extract id=with_connection file=lib/src/query.rs impl=/^impl RpslEvaluator/ fn=with_connection rules=R1,R7,R17 r7map=result
//@+ sub=/.map_err(Into::into)=>.map_err(|e| e.into())/
//@sig pub fn with_connection<F, T, E>(&mut self, f: F) -> (res: Result<T, Error>) where F: Fn(&mut Self, &mut Connection) -> Result<T, E>, E: Into<Error>
//@contract
        requires
            forall|s: &mut Self, c: &mut Connection| #[trigger] f.requires((s, c)),
            // a resolver closure does not install a connection itself
            forall|s: &mut Self, c: &mut Connection, r: Result<T, E>| #[trigger] f.ensures((s, c), r) ==> (*final(s)).conn is None || (*s).conn is Some,
        ensures
            // C15/C17: whether the resolver succeeded or failed, the connection is put back: the evaluator stays usable
            // for the remaining policies
            old(self).conn is Some ==> final(self).conn is Some,                               // OBL:C15.with_connection.restored_on_every_path
            old(self).conn is None ==> res is Err,
//@end
}

} // verus!
fn main() {}

// Unit A10 — selection of managed policy statements from the running configuration (C16; C03 'malformed annotation').
use vstd::prelude::*;
// anyhow!(..): an opaque error value (the message text is irrelevant here)
#[allow(unused_macros)]
macro_rules! anyhow { ($($t:tt)*) => { crate::anyhow_shim() } }
verus! {

//@include units/common_xml.rs

//@bytelits active=NameId::Active comment=NameId::Comment name=NameId::Name then=NameId::Then reject=NameId::Reject family=NameId::Family route-filter=NameId::RouteFilter term=NameId::Term

pub enum NameId { Active, Comment, Name, Then, Reject, Family, RouteFilter, Term, Other }
#[verifier::opaque]
pub open spec fn name_id(s: Seq<u8>) -> NameId {
    if s =~= seq![97u8, 99, 116, 105, 118, 101] { NameId::Active }                   // "active"
    else if s =~= seq![99u8, 111, 109, 109, 101, 110, 116] { NameId::Comment }       // "comment"
    else if s =~= seq![110u8, 97, 109, 101] { NameId::Name }                         // "name"
    else if s =~= seq![116u8, 104, 101, 110] { NameId::Then }                        // "then"
    else if s =~= seq![114u8, 101, 106, 101, 99, 116] { NameId::Reject }             // "reject"
    else if s =~= seq![102u8, 97, 109, 105, 108, 121] { NameId::Family }             // "family"
    else if s =~= seq![114u8, 111, 117, 116, 101, 45, 102, 105, 108, 116, 101, 114] { NameId::RouteFilter }   // "route-filter"
    else if s =~= seq![116u8, 101, 114, 109] { NameId::Term }                        // "term"
    else { NameId::Other }
}

// ---------- shims ----------
pub mod rpc { pub struct Error { pub x: u8 } }
pub struct BoxErr;
pub struct AttrError;
pub struct EscapeError;
pub struct ParseError;
impl From<AttrError> for BoxErr { #[verifier::external_body] fn from(e: AttrError) -> (r: BoxErr) { unimplemented!() } }
pub enum ReadError { UnexpectedXmlEvent(Event), MissingElement { msg_type: &'static str, element: &'static str }, Other(BoxErr) }
impl From<XmlError> for ReadError { #[verifier::external_body] fn from(e: XmlError) -> (r: ReadError) { unimplemented!() } }
impl From<EscapeError> for ReadError { #[verifier::external_body] fn from(e: EscapeError) -> (r: ReadError) { unimplemented!() } }

// the Junos namespaces, abstracted to identifiers (fetch.rs: XNM, JCMD)
pub const XNM: Namespace = Namespace { id: 2 };
pub const JCMD: Namespace = Namespace { id: 3 };

// text values are tracked symbolically
pub struct Text { pub id: Ghost<int> }
// what the annotation grammar says about an attribute value (RPSL parser + the comment decoration rules: ASSUMED/uninterpreted)
pub uninterp spec fn is_false_text(v: int) -> bool;                 // the value is the string "false"
pub uninterp spec fn annotation_raw(v: int) -> Option<int>;         // Some(raw) iff, decorations stripped, it starts with "bgpfu-fltr:"
pub uninterp spec fn parsed_expr(raw: int) -> Option<u64>;          // Some(expr) iff raw parses as an mp-filter expression

pub struct CowText { pub t: Text }
#[verifier::external_body]
pub fn str_eq(a: &CowText, lit: &str) -> (r: bool)
    ensures lit@ == "false"@ ==> r == is_false_text(a.t.id@)
{ unimplemented!() }
pub struct StrRef { pub of: Ghost<int>, pub stage: Ghost<int> }
impl CowText {
    // .trim_matches(['/', '*'].as_slice())
    #[verifier::external_body]
    pub fn trim_matches(&self, pat: &[char]) -> (r: StrRef) ensures r.of@ == self.t.id@, r.stage@ == 1 { unimplemented!() }
}
impl StrRef {
    #[verifier::external_body]
    pub fn trim(&self) -> (r: StrRef) ensures r.of@ == self.of@, r.stage@ == self.stage@ + 1 { unimplemented!() }
    // .strip_prefix("bgpfu-fltr:") after the two trims
    #[verifier::external_body]
    pub fn strip_prefix(&self, p: &str) -> (r: Option<RawExpr>)
        ensures (self.stage@ == 2 && p@ == "bgpfu-fltr:"@) ==> (match r { Some(x) => annotation_raw(self.of@) == Some(x.id@), None => annotation_raw(self.of@) is None })
    { unimplemented!() }
}
#[derive(Clone, Copy)]
pub struct RawExpr { pub id: Ghost<int> }
pub struct MpFilterExpr { pub id: u64 }
impl RawExpr {
    // str::parse::<MpFilterExpr>()
    #[verifier::external_body]
    pub fn parse<T>(&self) -> (r: Result<MpFilterExpr, ParseError>)
        ensures match r { Ok(e) => parsed_expr(self.id@) == Some(e.id), Err(_) => parsed_expr(self.id@) is None }
    { unimplemented!() }
}
// attributes of the <policy-statement> start tag, in document order (duplicates allowed: with_checks(false))
pub struct AttrSpec { pub ns: ResolveResult, pub lname: Seq<u8>, pub value: int }
pub struct Attribute { pub key: AttrKey, pub spec: Ghost<AttrSpec> }
#[derive(Clone, Copy)]
pub struct AttrKey { pub spec: Ghost<AttrSpec> }
impl Attribute {
    #[verifier::external_body]
    pub fn unescape_value(&self) -> (r: Result<CowText, EscapeError>) ensures r matches Ok(v) ==> v.t.id@ == self.spec@.value { unimplemented!() }
}
pub struct Attributes { pub all: Ghost<Seq<AttrSpec>>, pub pos: Ghost<int> }
impl BytesStart {
    #[verifier::external_body]
    pub fn attributes(&self) -> (r: Attributes) ensures r.pos@ == 0, r.all@ == attrs_of(*self) { unimplemented!() }
}
pub uninterp spec fn attrs_of(tag: BytesStart) -> Seq<AttrSpec>;
impl Attributes {
    #[verifier::external_body]
    pub fn with_checks(self, c: bool) -> (r: Attributes) ensures r == self { unimplemented!() }
    #[verifier::external_body]
    pub fn next(&mut self) -> (r: Option<Result<Attribute, AttrError>>)
        requires 0 <= old(self).pos@ <= old(self).all@.len(),
        ensures final(self).all@ == old(self).all@, 0 <= final(self).pos@ <= final(self).all@.len(),
            match r {
                Some(Ok(a)) => old(self).pos@ < old(self).all@.len() && a.spec@ == old(self).all@[old(self).pos@] && a.key.spec@ == a.spec@ && final(self).pos@ == old(self).pos@ + 1,
                Some(Err(_)) => final(self).pos@ >= old(self).pos@,
                None => old(self).pos@ == old(self).all@.len() && final(self).pos@ == old(self).pos@,
            }
    { unimplemented!() }
}
impl NsReader {
    #[verifier::external_body]
    pub fn resolve_attribute(&self, key: AttrKey) -> (r: (ResolveResult, LocalName)) ensures r.0 == key.spec@.ns, r.1@ == key.spec@.lname { unimplemented!() }
}
pub struct Name { pub t: Ghost<Seq<u8>> }
// &str contents as bytes; Arc<str> built from a &str (std From<&str> for Arc<str>: same contents)
pub uninterp spec fn str_bytes(s: &str) -> Seq<u8>;
pub struct ArcStr { pub v: Ghost<Seq<u8>> }
pub trait IntoArcStr { fn into_arc_str(&self) -> (r: ArcStr); }
impl IntoArcStr for str {
    #[verifier::external_body]
    fn into_arc_str(&self) -> (r: ArcStr) ensures r.v@ == str_bytes(self) { unimplemented!() }
}
// str::trim & co.: SOME function of the contents (uninterpreted), so that a name passed through one of them is not provably
// the name of the configuration
pub uninterp spec fn str_transformed(s: Seq<u8>, how: int) -> Seq<u8>;
pub assume_specification [str::trim] (s: &str) -> (r: &str) ensures str_bytes(r) == str_transformed(str_bytes(s), 0);
pub assume_specification [str::trim_start] (s: &str) -> (r: &str) ensures str_bytes(r) == str_transformed(str_bytes(s), 1);
pub assume_specification [str::trim_end] (s: &str) -> (r: &str) ensures str_bytes(r) == str_transformed(str_bytes(s), 2);
impl Name {
    // the tuple constructor Name(Arc<str>)
    #[verifier::external_body]
    pub fn from_arc(a: ArcStr) -> (r: Name) ensures r.t@ == a.v@ { unimplemented!() }
//@extract id=name_new file=junos-agent/src/policies/mod.rs impl=/^impl Name/ fn=new rules=R1 vis=pub
//@+ sub=/Self(=>Name::from_arc(;;.into()=>.into_arc_str()/
//@sig pub fn new(name: CowStr) -> (res: Name)
//@contract
        // C16: the policy name the agent uses is exactly the one in the configuration (C01: it is the key under which the
        // statement is compared with what is installed, and the name written back to the router)
        ensures res.t@ == name.v@,                                                            // OBL:C16+C01.name.statement_name_is_kept_verbatim
//@end
}

//@item file=junos-agent/src/policies/mod.rs kind=struct name=Candidate sub=/pub(crate) =>pub ;filter_expr:=>pub filter_expr:/
//@item file=junos-agent/src/policies/fetch.rs kind=struct name=Maybe sub=/struct Maybe<T>(Option<(Name, T)>)=>pub struct Maybe<T>(pub Option<(Name, T)>)/

// ---------- spec (from C16) ----------
pub open spec fn is_marked_attr(a: AttrSpec) -> bool { a.ns == ResolveResult::Bound(JCMD) && name_id(a.lname) == NameId::Comment && annotation_raw(a.value) is Some }
pub open spec fn has_marked(attrs: Seq<AttrSpec>) -> bool { exists|i: int| 0 <= i < attrs.len() && is_marked_attr(#[trigger] attrs[i]) }
// the statement's body contains the default action `then reject` (an empty <reject/> element)
pub open spec fn body_is_reject(seg: Seq<Item>) -> bool { reject_seen(seg) }
pub open spec fn expr_id(e: Option<MpFilterExpr>) -> Option<u64> { match e { Some(x) => Some(x.id), None => None } }
pub open spec fn is_inactive_attr(a: AttrSpec) -> bool {
    a.ns == ResolveResult::Bound(JCMD) && name_id(a.lname) == NameId::Active && is_false_text(a.value)
}
pub open spec fn has_inactive(attrs: Seq<AttrSpec>) -> bool { exists|i: int| 0 <= i < attrs.len() && is_inactive_attr(#[trigger] attrs[i]) }
// the parseable 'bgpfu-fltr: <expression>' annotation carried by one attribute, if any
pub open spec fn annotation(a: AttrSpec) -> Option<u64> {
    if a.ns == ResolveResult::Bound(JCMD) && name_id(a.lname) == NameId::Comment {
        match annotation_raw(a.value) { Some(raw) => parsed_expr(raw), None => None }
    } else { None }
}
// the annotation in force: the last parseable one in document order
pub open spec fn last_annotation(attrs: Seq<AttrSpec>) -> Option<u64>
    decreases attrs.len()
{
    if attrs.len() == 0 { None } else {
        match annotation(attrs.last()) { Some(e) => Some(e), None => last_annotation(attrs.drop_last()) }
    }
}

// C16: a managed statement consists of its name and a default reject action - nothing else (comments aside)
pub open spec fn allowed_body_item(it: Item) -> bool {
    match it {
        Item::Ev(ResolveResult::Bound(ns), Event::Start(tag)) => ns == XNM && (name_id(tag.lname@) == NameId::Name || name_id(tag.lname@) == NameId::Then),
        Item::Ev(ResolveResult::Bound(ns), Event::Empty(tag)) => ns == XNM && name_id(tag.lname@) == NameId::Reject,
        Item::Ev(_, Event::Start(_)) => false,
        Item::Ev(_, Event::Empty(_)) => false,
        Item::Ev(_, Event::Text(_)) => false,
        Item::Ev(_, Event::CData(_)) => false,
        Item::Ev(_, _) => true,          // comments, end tags
        Item::TextOf(_) => true,         // the text of <name>
        _ => false,
    }
}
pub open spec fn only_allowed(s: Seq<Item>) -> bool { forall|i: int| 0 <= i < s.len() ==> allowed_body_item(#[trigger] s[i]) }
pub broadcast proof fn lemma_only_allowed_push(s: Seq<Item>, it: Item)
    ensures #[trigger] only_allowed(s.push(it)) == (only_allowed(s) && allowed_body_item(it)),
{
    if only_allowed(s.push(it)) {
        assert forall|i: int| 0 <= i < s.len() implies allowed_body_item(#[trigger] s[i]) by { assert(s.push(it)[i] == s[i]); }
        assert(s.push(it)[s.len() as int] == it);
    }
}

pub mod fetch {
use super::*;
broadcast use {xml_log_lemmas, lemma_only_allowed_push, lemma_reject_seen_push, lemma_reject_seen_empty};

pub proof fn lemma_last_annotation_step(attrs: Seq<AttrSpec>, k: int)
    requires 0 <= k < attrs.len(),
    ensures last_annotation(attrs.take(k + 1)) == (match annotation(attrs[k]) { Some(e) => Some(e), None => last_annotation(attrs.take(k)) }),
{
    assert(attrs.take(k + 1).drop_last() =~= attrs.take(k));
    assert(attrs.take(k + 1).last() == attrs[k]);
}
pub proof fn lemma_inactive_step(attrs: Seq<AttrSpec>, k: int)
    requires 0 <= k < attrs.len(),
    ensures has_inactive(attrs.take(k + 1)) == (has_inactive(attrs.take(k)) || is_inactive_attr(attrs[k])),
{
    let a = attrs.take(k); let b = attrs.take(k + 1);
    if has_inactive(a) { let i = choose|i: int| 0 <= i < a.len() && is_inactive_attr(#[trigger] a[i]); assert(b[i] == a[i]); }
    if is_inactive_attr(attrs[k]) { assert(b[k] == attrs[k]); }
    if has_inactive(b) { let i = choose|i: int| 0 <= i < b.len() && is_inactive_attr(#[trigger] b[i]); if i < k { assert(a[i] == b[i]); } }
}

impl Maybe<Candidate> {
//@extract id=maybe_candidate_read_xml file=junos-agent/src/policies/fetch.rs impl=/impl ReadXml for Maybe<Candidate>/ fn=read_xml rules=R1,R2,R7,R8,R11,R12,R15,R17,R21 r7map=option constpats=JCMD,XNM vis=pub
//@local maybe_filter_expr /let mut (\w+) = None;\s*(?:\/\/[^\n]*\n\s*)*\{ let mut it__0/
//@local reject_policy /let mut name = None;\s*let mut (\w+) = false;/
//@contract
        ensures res matches Ok(Maybe(sel)) ==> {
            let attrs = attrs_of(*start);
            // inactive statements are never selected, wherever the attribute stands
            &&& has_inactive(attrs) ==> sel is None                                                   // OBL:C16.inactive_never_selected
            // statements without a parseable bgpfu-fltr annotation are never selected
            &&& last_annotation(attrs) is None ==> sel is None                                        // OBL:C16.unannotated_never_selected
            // a selected statement carries exactly the expression of the annotation in force
            &&& (sel matches Some(nc) ==> last_annotation(attrs) == Some(nc.1.filter_expr.id))        // OBL:C16.expression_is_the_configured_one
            // a selected statement has no other content than its name and the default reject action
            &&& (sel is Some ==> is_prefix(old(reader).log@, final(reader).log@) && only_allowed(seg_of(old(reader).log@, final(reader).log@)))   // OBL:C16.no_other_content
        },
        // C03: a statement with a valid annotation and the default reject action is always selected - the reader never drops it
        // for another reason (its selection decides whether compare() updates the installed policy or deletes it)
        res matches Ok(Maybe(sel)) ==> ((!has_inactive(attrs_of(*start)) && last_annotation(attrs_of(*start)) is Some
            && body_is_reject(seg_of(old(reader).log@, final(reader).log@)) && is_prefix(old(reader).log@, final(reader).log@)) ==> sel is Some),   // OBL:C03.fetch.annotated_statement_stays_managed
        // C03: a statement that is still marked as managed (it carries the bgpfu-fltr: prefix) must stay known to the agent even
        // if its expression does not parse - otherwise compare() takes the installed policy for "no longer managed" and deletes it
        res matches Ok(Maybe(sel)) ==> ((!has_inactive(attrs_of(*start)) && has_marked(attrs_of(*start)) && body_is_reject(seg_of(old(reader).log@, final(reader).log@))) ==> sel is Some),   // OBL:C03.fetch.marked_statement_stays_managed
//@loop 1
            invariant
                it__0.all@ == attrs_of(*start), 0 <= it__0.pos@ <= it__0.all@.len(),
                reader.remaining@ == old(reader).remaining@, reader.log@ == old(reader).log@,
                !has_inactive(it__0.all@.take(it__0.pos@)),                                             // OBL:C16.scan.no_inactive_so_far
                expr_id(maybe_filter_expr) == last_annotation(it__0.all@.take(it__0.pos@)),   // OBL:C16.scan.annotation_in_force
            ensures
                it__0.pos@ == it__0.all@.len(),
            decreases it__0.all@.len() - it__0.pos@,
//@loop 2
            invariant
                reader.remaining@.len() <= old(reader).remaining@.len(),
                is_prefix(old(reader).log@, reader.log@), only_allowed(seg_of(old(reader).log@, reader.log@)),   // OBL:C16.body.only_name_and_reject
                reject_policy <==> reject_seen(seg_of(old(reader).log@, reader.log@)),                 // OBL:C03.fetch.reject_flag_tracks_the_body
            decreases reader.remaining@.len(),                                                        // OBL:C14.candidate.body_loop_terminates
//@loop 3
                        invariant
                            reader.remaining@.len() <= rem_at_then,
                            is_prefix(old(reader).log@, reader.log@), only_allowed(seg_of(old(reader).log@, reader.log@)),   // OBL:C16.body.only_reject_in_then
                            reject_policy <==> reject_seen(seg_of(old(reader).log@, reader.log@)),    // OBL:C03.fetch.reject_flag_tracks_the_then_part
                        decreases reader.remaining@.len(),                                            // OBL:C14.candidate.then_loop_terminates
//@before /let end = tag\.to_end\(\);/
                    let ghost rem_at_then = reader.remaining@.len();
//@before /let Some\(filter_expr\) = maybe_filter_expr else/
        proof { assert(attrs_of(*start).take(attrs_of(*start).len() as int) =~= attrs_of(*start)); }
//@before /let attr = /
            let ghost k0 = it__0.pos@ - 1;
//@before-stmt /reader\.resolve_attribute\(attr\.key\)/
            proof { lemma_last_annotation_step(it__0.all@, k0); lemma_inactive_step(it__0.all@, k0); }
//@end
}
} // mod fetch

// ---------- the installed-policy side: <from> of a term (C01 'the agent reads back what it installed') ----------
pub struct RouteFilter { pub address: CowStr, pub prefix_length_range: CowStr }
impl RouteFilter {
    // RouteFilter::borrowed_read_xml: ASSUMED to consume the <route-filter> subtree and to record one Data item
    #[verifier::external_body]
    pub fn borrowed_read_xml(reader: &mut NsReader, start: &BytesStart) -> (r: Result<RouteFilter, ReadError>)
        ensures final(reader).remaining@.len() <= old(reader).remaining@.len(),
                r is Ok ==> final(reader).log@ == old(reader).log@.push(Item::Data),
                r is Err ==> is_prefix(old(reader).log@, final(reader).log@),
    { unimplemented!() }
}
//@item file=junos-agent/src/policies/fetch.rs kind=struct name=TermFrom sub=/struct TermFrom<'i>=>pub struct TermFrom;family: Cow<'i, str>=>pub family: CowStr;route_filters: Vec<RouteFilter<'i>>=>pub route_filters: Vec<RouteFilter>/
pub open spec fn is_rf_start(it: Item) -> bool {
    it matches Item::Ev(ResolveResult::Bound(ns), Event::Start(tag)) && ns == XNM && name_id(tag.lname@) == NameId::RouteFilter
}
pub open spec fn count_data(s: Seq<Item>) -> nat decreases s.len() {
    if s.len() == 0 { 0 } else { count_data(s.drop_last()) + (if s.last() is Data { 1nat } else { 0nat }) }
}
pub open spec fn count_rf(s: Seq<Item>) -> nat decreases s.len() {
    if s.len() == 0 { 0 } else { count_rf(s.drop_last()) + (if is_rf_start(s.last()) { 1nat } else { 0nat }) }
}
pub broadcast proof fn lemma_count_data_push(s: Seq<Item>, it: Item)
    ensures #[trigger] count_data(s.push(it)) == count_data(s) + (if it is Data { 1nat } else { 0nat }),
{ assert(s.push(it).drop_last() =~= s); }
pub broadcast proof fn lemma_count_rf_push(s: Seq<Item>, it: Item)
    ensures #[trigger] count_rf(s.push(it)) == count_rf(s) + (if is_rf_start(it) { 1nat } else { 0nat }),
{ assert(s.push(it).drop_last() =~= s); }

pub mod installed {
use super::*;
broadcast use {xml_log_lemmas, lemma_count_data_push, lemma_count_rf_push};
impl TermFrom {
//@extract id=term_from_read_xml file=junos-agent/src/policies/fetch.rs impl=/BorrowedReadXml<'i> for TermFrom<'i>/ fn=borrowed_read_xml rules=R1,R2,R7,R8,R11,R15,R17,R19 constpats=XNM erase=NsReader,BytesStart,BytesEnd,RouteFilter,TermFrom
//@sig pub fn borrowed_read_xml(reader: &mut NsReader, start: &BytesStart) -> (res: Result<Self, ReadError>)
//@contract
        // C01: what the agent reads back is what is installed - every <route-filter> of the term is parsed and kept, none is dropped
        ensures res matches Ok(tf) ==> {
            let seg = seg_of(old(reader).log@, final(reader).log@);
            &&& is_prefix(old(reader).log@, final(reader).log@)
            &&& tf.route_filters@.len() == count_rf(seg)                                       // OBL:C01.fetch.every_route_filter_is_kept
            &&& count_data(seg) == count_rf(seg)
        },
        res is Ok ==> final(reader).remaining@.len() <= old(reader).remaining@.len(),
//@loop 1
            invariant
                is_prefix(old(reader).log@, reader.log@),
                reader.remaining@.len() <= old(reader).remaining@.len(),
                route_filters@.len() == count_rf(seg_of(old(reader).log@, reader.log@)),       // OBL:C01.fetch.route_filters_count
                count_data(seg_of(old(reader).log@, reader.log@)) == count_rf(seg_of(old(reader).log@, reader.log@)),
            decreases reader.remaining@.len(),                                                 // OBL:C14.term_from.terminates
//@end
}
} // mod installed

// ---------- the installed-policy side: one <policy-statement> of the ephemeral instance (C01 'the agent reads back what it
// installed, so that it can delete it once it is no longer managed'; C14) ----------
pub struct Ipv4; pub struct Ipv6;
pub struct Ranges<A> { pub id: Ghost<int>, pub _a: core::marker::PhantomData<A> }
impl<A> core::default::Default for Ranges<A> {
    #[verifier::external_body] fn default() -> (r: Self) { unimplemented!() }
}
//@item file=junos-agent/src/policies/mod.rs kind=struct name=Installed sub=/pub(crate) =>pub ;ipv4:=>pub ipv4:;ipv6:=>pub ipv6:/
pub struct AnyhowErr;
impl AnyhowErr { #[verifier::external_body] pub fn into(self) -> (r: BoxErr) { unimplemented!() } }
#[verifier::external_body]
pub fn anyhow_shim() -> (r: AnyhowErr) { unimplemented!() }
impl CowStr {
    // Cow<str>::as_ref
    #[verifier::external_body]
    pub fn as_ref(&self) -> (r: &str) ensures str_bytes(r) == self.v@ { unimplemented!() }
}
impl TermFrom {
    // TermFrom::try_into_ranges::<A>: parses the route-filters of the term into prefix ranges (generic-ip parsers: ASSUMED)
    #[verifier::external_body]
    pub fn try_into_ranges<A>(&self) -> (r: Result<Ranges<A>, ReadError>) { unimplemented!() }
}
pub struct Term { pub from: TermFrom }
impl Term {
    // Term::borrowed_read_xml: ASSUMED to consume the <term> subtree and to record one Data item (its <from> part is
    // TermFrom::borrowed_read_xml, verified above)
    #[verifier::external_body]
    pub fn borrowed_read_xml(reader: &mut NsReader, start: &BytesStart) -> (r: Result<Term, ReadError>)
        ensures final(reader).remaining@.len() <= old(reader).remaining@.len(),
                r is Ok ==> final(reader).log@ == old(reader).log@.push(Item::Data),
                r is Err ==> is_prefix(old(reader).log@, final(reader).log@),
    { unimplemented!() }
}
// the agent's own statements end with the default action `then reject`: that, and nothing about their terms, is what marks a
// statement of the ephemeral instance as one the agent installed (an empty filter has no terms at all)
pub open spec fn is_reject_item(it: Item) -> bool {
    it matches Item::Ev(ResolveResult::Bound(ns), Event::Empty(tag)) && ns == XNM && name_id(tag.lname@) == NameId::Reject
}
pub open spec fn reject_seen(s: Seq<Item>) -> bool { exists|i: int| 0 <= i < s.len() && is_reject_item(#[trigger] s[i]) }
pub broadcast proof fn lemma_reject_seen_push(s: Seq<Item>, it: Item)
    ensures #[trigger] reject_seen(s.push(it)) == (reject_seen(s) || is_reject_item(it)),
{
    let s2 = s.push(it);
    if reject_seen(s) { let i = choose|i: int| 0 <= i < s.len() && is_reject_item(#[trigger] s[i]); assert(s2[i] == s[i]); }
    if is_reject_item(it) { assert(s2[s.len() as int] == it); }
    if reject_seen(s2) { let i = choose|i: int| 0 <= i < s2.len() && is_reject_item(#[trigger] s2[i]); if i < s.len() { assert(s2[i] == s[i]); } }
}
pub broadcast proof fn lemma_reject_seen_empty()
    ensures !#[trigger] reject_seen(Seq::<Item>::empty()),
{
}

pub mod installed_stmt {
use super::*;
broadcast use {xml_log_lemmas, lemma_reject_seen_push, lemma_reject_seen_empty};
impl Maybe<Installed> {
//@extract id=maybe_installed_read_xml file=junos-agent/src/policies/fetch.rs impl=/impl ReadXml for Maybe<Installed>/ fn=read_xml rules=R1,R2,R7,R8,R11,R15,R17 r7map=option r7pathmap=result constpats=XNM vis=pub
//@local default_reject /let mut (\w+) = false;/
//@contract
        ensures
            res is Ok ==> final(reader).remaining@.len() <= old(reader).remaining@.len(),
            res is Ok ==> is_prefix(old(reader).log@, final(reader).log@),
            // C01: a statement is taken for one the agent installed exactly if it ends with the default reject action -
            // whether or not it has address-family terms (a filter that evaluated to nothing is installed without terms,
            // and must still be read back so that it is deleted once it is no longer managed)
            res matches Ok(Maybe(sel)) ==> (sel is Some <==> reject_seen(seg_of(old(reader).log@, final(reader).log@))),   // OBL:C01.fetch.installed_statement_is_recognised_by_its_default_reject
//@loop 1
            invariant
                is_prefix(old(reader).log@, reader.log@),
                reader.remaining@.len() <= old(reader).remaining@.len(),
                default_reject <==> reject_seen(seg_of(old(reader).log@, reader.log@)),            // OBL:C01.fetch.default_reject_tracks_the_log
            decreases reader.remaining@.len(),                                                    // OBL:C14.installed.body_loop_terminates
//@loop 2
                        invariant
                            is_prefix(old(reader).log@, reader.log@),
                            reader.remaining@.len() <= rem_at_then,
                            rem_at_then <= old(reader).remaining@.len(),
                            default_reject <==> reject_seen(seg_of(old(reader).log@, reader.log@)),   // OBL:C01.fetch.default_reject_tracks_the_log_in_then
                        decreases reader.remaining@.len(),                                        // OBL:C14.installed.then_loop_terminates
//@before /let end = tag\.to_end\(\);/
                    let ghost rem_at_then = reader.remaining@.len();
// C01: every statement the agent writes must be readable again - its writer emits at most one term per family, in either
// order; so a term is refused as "unexpected" only if its family is neither inet nor inet6 or was already read in this statement
//@check-before-stmt /unexpected address family identifier/ 1
                            assert(!(family == "inet" && ipv4 is None) && !(family == "inet6" && ipv6 is None));   // OBL:C01.fetch.term_of_a_family_not_yet_read_is_accepted
//@end
}
} // mod installed_stmt

// ---------- C14: the remaining readers of the agent's get-config reply terminate and reach no panic ----------
// (their value contracts are not stated here: only termination, `remaining` never grows, no reachable panic / overflow)
pub struct TermFull { pub name: CowStr, pub from: TermFrom }
pub struct RouteFilterFull { pub address: CowStr, pub prefix_length_range: CowStr }
#[verifier::external_body]
pub fn str_eq_cow(a: &&str, lit: &str) -> (r: bool) { unimplemented!() }
// HashMap<Name, T> with the entry API (ghost map from the name's text to the value)
pub struct HashMap<T> { pub m: Ghost<Map<Seq<u8>, T>> }
pub enum Entry<'a, T> { Occupied(OccupiedEntry), Vacant(VacantEntry<'a, T>) }
pub struct OccupiedEntry;
pub struct VacantEntry<'a, T> { pub map: &'a mut HashMap<T>, pub key: Name }
impl<T> HashMap<T> {
    #[verifier::external_body] pub fn new() -> (r: HashMap<T>) ensures r.m@ == Map::<Seq<u8>, T>::empty() { unimplemented!() }
    #[verifier::external_body]
    pub fn entry<'a>(&'a mut self, k: Name) -> (r: Entry<'a, T>)
        ensures match r {
            Entry::Occupied(_) => old(self).m@.contains_key(k.t@) && final(self).m@ == old(self).m@,
            Entry::Vacant(v) => !old(self).m@.contains_key(k.t@) && v.key.t@ == k.t@ && v.map.m@ == old(self).m@ && final(self).m@ == final(v.map).m@,
        }
    { unimplemented!() }
    #[verifier::external_body]
    pub fn remove(&mut self, k: &Name) -> (r: Option<T>) ensures final(self).m@ == old(self).m@.remove(k.t@) { unimplemented!() }
    #[verifier::external_body]
    pub fn insert(&mut self, k: Name, v: T) -> (r: Option<T>) ensures final(self).m@ == old(self).m@.insert(k.t@, v) { unimplemented!() }
    #[verifier::external_body]
    pub fn contains_key(&self, k: &Name) -> (r: bool) ensures r == self.m@.contains_key(k.t@) { unimplemented!() }
}
impl<'a, T> VacantEntry<'a, T> {
    #[verifier::external_body]
    pub fn insert(self, v: T) -> (r: u8) ensures final(self.map).m@ == old(self.map).m@.insert(self.key.t@, v) { unimplemented!() }
}
impl Clone for Name { #[verifier::external_body] fn clone(&self) -> (r: Self) ensures r.t@ == self.t@ { unimplemented!() } }
//@item file=junos-agent/src/policies/mod.rs kind=struct name=Policies sub=/pub(crate) struct Policies<T>=>pub struct Policies<T>;map: HashMap<Name, T>=>pub map: HashMap<T>/
// `Maybe<T>: ReadXml` - the per-statement readers (Maybe<Candidate> / Maybe<Installed>, verified above). For the aggregation the
// callee's part of the log is summarised by one item: TextOf(name) for a selected statement, Data for one that is not selected.
pub trait MaybeRead: Sized {
    fn read_maybe(reader: &mut NsReader, start: &BytesStart) -> (r: Result<Maybe<Self>, ReadError>)
        ensures r is Ok ==> final(reader).remaining@.len() <= old(reader).remaining@.len(),
                r matches Ok(Maybe(Some(sel))) ==> final(reader).log@ == old(reader).log@.push(Item::TextOf(sel.0.t@)),
                r matches Ok(Maybe(None)) ==> final(reader).log@ == old(reader).log@.push(Item::Data),
                r is Err ==> is_prefix(old(reader).log@, final(reader).log@);
}
// names of the statements selected in a consumed segment of the log, in document order
pub open spec fn selected(s: Seq<Item>) -> Seq<Seq<u8>>
    decreases s.len()
{
    if s.len() == 0 { Seq::empty() } else { match s.last() { Item::TextOf(t) => selected(s.drop_last()).push(t), _ => selected(s.drop_last()) } }
}
pub broadcast proof fn lemma_selected_push(s: Seq<Item>, it: Item)
    ensures #[trigger] selected(s.push(it)) == (match it { Item::TextOf(t) => selected(s).push(t), _ => selected(s) }),
{
    let s2 = s.push(it);
    assert(s2.drop_last() =~= s);
    assert(s2.last() == it);
}
pub broadcast proof fn lemma_selected_empty()
    ensures #[trigger] selected(Seq::<Item>::empty()) == Seq::<Seq<u8>>::empty(),
{
}
// C16 at the level of the whole reply: the managed set is exactly the set of selected statements, and a name that is selected
// twice is an error (never silently one of the two, never "neither")
pub open spec fn aggregated<T>(m: Map<Seq<u8>, T>, names: Seq<Seq<u8>>) -> bool {
    &&& names.no_duplicates()
    &&& forall|n: Seq<u8>| #[trigger] m.contains_key(n) <==> names.contains(n)
}
pub proof fn lemma_aggregated_push<T>(m: Map<Seq<u8>, T>, names: Seq<Seq<u8>>, n: Seq<u8>, v: T)
    requires aggregated(m, names), !m.contains_key(n),
    ensures aggregated(m.insert(n, v), names.push(n)),
{
    let n2 = names.push(n);
    assert(n2[names.len() as int] == n);
    assert forall|x: Seq<u8>| #[trigger] m.insert(n, v).contains_key(x) <==> n2.contains(x) by {
        if names.contains(x) { let i = choose|i: int| 0 <= i < names.len() && names[i] == x; assert(n2[i] == x); }
        if n2.contains(x) { let i = choose|i: int| 0 <= i < n2.len() && n2[i] == x; if i < names.len() { assert(names[i] == x); } }
    }
    assert forall|i: int, j: int| 0 <= i < n2.len() && 0 <= j < n2.len() && i != j implies n2[i] != n2[j] by {
        if i < names.len() && j < names.len() { assert(names[i] != names[j]); }
        else if i < names.len() { assert(names.contains(names[i])); }
        else if j < names.len() { assert(names.contains(names[j])); }
    }
}
pub broadcast group agg_lemmas { xml_log_lemmas, lemma_selected_push, lemma_selected_empty }

pub mod c14_readers {
use super::*;
broadcast use agg_lemmas;
impl TermFull {
//@extract id=term_read_xml file=junos-agent/src/policies/fetch.rs impl=/BorrowedReadXml<'i> for Term<'i>/ fn=borrowed_read_xml rules=R1,R2,R7,R8,R11,R15,R17 r7map=option constpats=XNM erase=NsReader,BytesStart,BytesEnd
//@sig pub fn borrowed_read_xml(reader: &mut NsReader, start: &BytesStart) -> (res: Result<Self, ReadError>)
//@contract
        ensures res is Ok ==> final(reader).remaining@.len() <= old(reader).remaining@.len(),
//@loop 1
            invariant reader.remaining@.len() <= old(reader).remaining@.len(),
            decreases reader.remaining@.len(),                                                  // OBL:C14.term.terminates
//@loop 2
                        invariant reader.remaining@.len() <= rem_at_then, rem_at_then <= old(reader).remaining@.len(),
                        decreases reader.remaining@.len(),                                      // OBL:C14.term.then_loop_terminates
//@before /let end = tag\.to_end\(\);/
                    let ghost rem_at_then = reader.remaining@.len();
//@end
}
impl RouteFilterFull {
//@extract id=route_filter_read_xml file=junos-agent/src/policies/fetch.rs impl=/BorrowedReadXml<'i> for RouteFilter<'i>/ fn=borrowed_read_xml rules=R1,R2,R7,R8,R11,R15,R17,R21 r7map=option constpats=XNM erase=NsReader,BytesStart,BytesEnd
//@+ sub=/ident.as_ref() != "prefix-length-range"=>!str_eq_cow(&ident.as_ref(), "prefix-length-range")/
//@sig pub fn borrowed_read_xml(reader: &mut NsReader, start: &BytesStart) -> (res: Result<Self, ReadError>)
//@contract
        ensures res is Ok ==> final(reader).remaining@.len() <= old(reader).remaining@.len(),
//@loop 1
            invariant reader.remaining@.len() <= old(reader).remaining@.len(),
            decreases reader.remaining@.len(),                                                  // OBL:C14.route_filter.terminates
//@loop 2
                    invariant reader.remaining@.len() <= rem_at_choice, rem_at_choice <= old(reader).remaining@.len(),
                    decreases reader.remaining@.len(),                                          // OBL:C14.route_filter.choice_loop_terminates
//@before /let ident = reader\.read_text/
                    let ghost rem_at_choice = reader.remaining@.len();
//@end
}
impl<T: MaybeRead> Policies<T> {
//@extract id=policies_read_xml file=junos-agent/src/policies/fetch.rs impl=/impl<T> ReadXml for Policies<T>/ fn=read_xml rules=R1,R2,R7,R8,R11,R15,R17 r7map=option constpats=XNM vis=pub
//@+ sub=/Maybe::read_xml(reader, &tag)?=>T::read_maybe(reader, &tag)?/
//@local map /let mut (\w+) = HashMap::new\(\);/
//@local this /let end = start\.to_end\(\);\s*let mut (\w+) = None;/
//@contract
        ensures res is Ok ==> final(reader).remaining@.len() <= old(reader).remaining@.len(),
                res is Ok ==> is_prefix(old(reader).log@, final(reader).log@),
                // C16: the managed set is exactly the set of statements the per-statement reader selected; a name selected twice
                // makes the whole reply an error
                res matches Ok(p) ==> aggregated(p.map.m@, selected(seg_of(old(reader).log@, final(reader).log@))),   // OBL:C16.policies.exactly_the_selected_statements
//@loop 1
            invariant reader.remaining@.len() <= old(reader).remaining@.len(),
                is_prefix(old(reader).log@, reader.log@),
                match this { Some(p) => aggregated(p.map.m@, selected(seg_of(old(reader).log@, reader.log@))),
                             None => selected(seg_of(old(reader).log@, reader.log@)) == Seq::<Seq<u8>>::empty() },   // OBL:C16.policies.aggregate_so_far
            decreases reader.remaining@.len(),                                                  // OBL:C14.policies.terminates
//@loop 2
                        invariant reader.remaining@.len() <= rem_at_configuration, rem_at_configuration <= old(reader).remaining@.len(),
                            is_prefix(old(reader).log@, reader.log@), this is None,
                            aggregated(map.m@, selected(seg_of(old(reader).log@, reader.log@))),       // OBL:C16.policies.aggregate_in_configuration
                        decreases reader.remaining@.len(),                                      // OBL:C14.policies.configuration_loop_terminates
//@loop 3
                                    invariant reader.remaining@.len() <= rem_at_policy_options, rem_at_policy_options <= rem_at_configuration,
                                        rem_at_configuration <= old(reader).remaining@.len(),
                                        is_prefix(old(reader).log@, reader.log@), this is None,
                                        aggregated(map.m@, selected(seg_of(old(reader).log@, reader.log@))),   // OBL:C16.policies.aggregate_in_policy_options
                                    decreases reader.remaining@.len(),                          // OBL:C14.policies.policy_options_loop_terminates
//@before /let end = tag\.to_end\(\);/ 1
                    let ghost rem_at_configuration = reader.remaining@.len();
//@before /let end = tag\.to_end\(\);/ 2
                                let ghost rem_at_policy_options = reader.remaining@.len();
//@before-stmt /T::read_maybe\(/ 1 optional
                                            let ghost seg_before = seg_of(old(reader).log@, reader.log@);
//@after /let mut this = None;/
        let _: &Option<Self> = &this;      // (type of `this`, which rustc otherwise infers from the later assignment)
//@before /if let Entry::Vacant\(entry\) =/ optional
                                                proof {
                                                    // (total: if the name is new, adding it keeps the aggregate; cannot fail)
                                                    if aggregated(map.m@, selected(seg_before)) && !map.m@.contains_key(name.t@) {
                                                        lemma_aggregated_push(map.m@, selected(seg_before), name.t@, policy);
                                                    }
                                                }
//@end
}
} // mod c14_readers

} // verus!
fn main() {}

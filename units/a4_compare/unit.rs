// Unit A4 — per-policy case split evaluated x installed -> Update / Delete / none (C03, C01 'no stale policy').
use vstd::prelude::*;
verus! {

// ---------- shims: types of dependencies (opaque) ----------
pub struct MpFilterExpr { pub id: u64 }           // rpsl::expr::MpFilterExpr
pub trait Afi {}                                   // ip::Afi
pub struct Ipv4; impl Afi for Ipv4 {}
pub struct Ipv6; impl Afi for Ipv6 {}
pub struct Name { pub id: u64 }                    // Name(Arc<str>)
impl Clone for Name { fn clone(&self) -> (r: Self) ensures r == *self { Name { id: self.id } } }
// Ranges<A> { inner: HashSet<PrefixRange<A>> }: only its identity matters to the case split
pub struct Ranges<A: Afi> { pub id: u64, pub _a: core::marker::PhantomData<A> }
impl<A: Afi> Ranges<A> {
    #[verifier::external_body]
    pub fn is_empty(&self) -> (r: bool) { unimplemented!() }
}

//@item file=junos-agent/src/policies/mod.rs kind=struct name=Installed sub=/pub(crate) =>pub /
//@item file=junos-agent/src/policies/mod.rs kind=struct name=Evaluated sub=/pub(crate) =>pub /
//@item file=junos-agent/src/policies/mod.rs kind=enum name=Update sub=/pub(crate) =>pub /
//@item file=junos-agent/src/policies/mod.rs kind=struct name=Differences sub=/pub(crate) =>pub /

impl<'a, A: Afi> Differences<'a, A> {
//@extract id=differences_new file=junos-agent/src/policies/compare.rs impl=/Differences<'a, A>/ fn=new rules=R1,R7,R17 r7map=option
//@contract
        ensures res.old == old, res.new == new,                                              // OBL:C01+C02+C03.compare.differences_carry_installed_and_evaluated
//@end
}

// C03 / C01, from the property text, for one policy name:
spec fn decide_post<'a>(name: Name, e: Option<&'a Evaluated>, i: Option<&'a Installed>, r: Option<Update<'a>>) -> bool {
    match e {
        // evaluation failed (no ranges): neither an update nor a delete is produced
        Some(ev) if ev.ranges is None => r is None,
        // an evaluated policy is updated towards exactly its evaluated ranges, relative to exactly the installed ranges
        Some(ev) => match r {
            Some(Update::Update { name: n, filter_expr, ipv4, ipv6 }) =>
                n == name && *filter_expr == ev.filter_expr
                && *ipv4.new == ev.ranges->Some_0.0 && *ipv6.new == ev.ranges->Some_0.1
                && (match i { Some(inst) => ipv4.old == Some(&inst.ipv4) && ipv6.old == Some(&inst.ipv6),
                              None => ipv4.old is None && ipv6.old is None }),
            _ => false,
        },
        // a delete is produced only, and always, for an installed policy that is no longer a candidate
        None => i is Some && (r matches Some(Update::Delete { name: n }) && n == name),
    }
}

//@extract id=compare_decide file=junos-agent/src/policies/compare.rs impl=/impl Policies<Evaluated>/ fn=compare expr=/match \(self\.map\.get\(name\), installed\.map\.get\(name\)\)/ rules=R1,R7,R17 r7map=option
//@+ sub=/(self.map.get(name), installed.map.get(name))=>(e, i)/
//@sig fn decide<'a>(name: &Name, e: Option<&'a Evaluated>, i: Option<&'a Installed>) -> (res: Option<Update<'a>>)
//@contract
    // the closure is only called for names in keys(evaluated) ∪ keys(installed)  (`unreachable!()` otherwise)
    requires e is Some || i is Some,
    ensures decide_post(*name, e, i, res),                                               // OBL:C03+C01+C02.compare.decide
//@end

// ---------- the whole Policies::<Evaluated>::compare pipeline ----------
// HashMap<Name, T>: ghost map from name ids to values; iteration yields each key exactly once, in an arbitrary order
pub struct NameMap<T> { pub m: Ghost<Map<u64, T>> }
pub struct KeysIter { pub ids: Ghost<Seq<u64>> }
pub struct HashSet<T> { pub s: Ghost<Set<u64>>, pub _t: core::marker::PhantomData<T> }     // HashSet<Name>
pub trait FromKeyIds: Sized { spec fn key_ids(&self) -> Set<u64>; }
impl FromKeyIds for HashSet<Name> { open spec fn key_ids(&self) -> Set<u64> { self.s@ } }
pub struct NameIter { pub ids: Ghost<Seq<u64>> }
pub struct FilterMapped<'a> { pub out: Ghost<Seq<Update<'a>>> }
impl<T> NameMap<T> {
    #[verifier::external_body]
    pub fn keys(&self) -> (r: KeysIter) ensures forall|n: u64| #![trigger r.ids@.contains(n)] #![trigger self.m@.contains_key(n)] r.ids@.contains(n) <==> self.m@.contains_key(n) { unimplemented!() }
    #[verifier::external_body]
    pub fn get(&self, k: &Name) -> (r: Option<&T>)
        ensures match r { Some(v) => self.m@.contains_key(k.id) && *v == self.m@[k.id], None => !self.m@.contains_key(k.id) }
    { unimplemented!() }
    #[verifier::external_body]
    pub fn is_empty(&self) -> (r: bool) ensures r <==> (forall|n: u64| !self.m@.contains_key(n)) { unimplemented!() }
}
impl KeysIter {
    #[verifier::external_body]
    pub fn chain(self, other: KeysIter) -> (r: KeysIter) ensures forall|n: u64| #![trigger r.ids@.contains(n)] #![trigger self.ids@.contains(n)] #![trigger other.ids@.contains(n)] r.ids@.contains(n) <==> (self.ids@.contains(n) || other.ids@.contains(n)) { unimplemented!() }
    #[verifier::external_body]
    pub fn cloned(self) -> (r: KeysIter) ensures forall|n: u64| #![trigger r.ids@.contains(n)] #![trigger self.ids@.contains(n)] r.ids@.contains(n) <==> self.ids@.contains(n) { unimplemented!() }
    // .collect::<HashSet<_>>()  /  `let x: HashSet<_> = ...collect();`
    #[verifier::external_body]
    pub fn collect<B: FromKeyIds>(self) -> (r: B) ensures forall|n: u64| #![trigger r.key_ids().contains(n)] #![trigger self.ids@.contains(n)] r.key_ids().contains(n) <==> self.ids@.contains(n) { unimplemented!() }
}
impl HashSet<Name> {
    #[verifier::external_body]
    pub fn iter(&self) -> (r: NameIter) ensures forall|n: u64| #![trigger r.ids@.contains(n)] #![trigger self.s@.contains(n)] r.ids@.contains(n) <==> self.s@.contains(n) { unimplemented!() }
}
pub open spec fn produced_by<'a, F: Fn(&Name) -> Option<Update<'a>>>(f: F, ids: Seq<u64>, u: Update<'a>) -> bool {
    exists|n: u64| ids.contains(n) && #[trigger] f.ensures((&Name { id: n },), Some(u))
}
pub open spec fn consumed_into<'a, F: Fn(&Name) -> Option<Update<'a>>>(f: F, id: u64, out: Seq<Update<'a>>) -> bool {
    exists|o: Option<Update<'a>>| #[trigger] f.ensures((&Name { id },), o) && (o matches Some(u) ==> out.contains(u))
}
impl NameIter {
    // Iterator::filter_map(f).  f is called once per element; its Some results are what comes out.
    #[verifier::external_body]
    pub fn filter_map<'a, F: Fn(&Name) -> Option<Update<'a>>>(self, f: F) -> (r: FilterMapped<'a>)
        requires forall|n: u64| self.ids@.contains(n) ==> #[trigger] f.requires((&Name { id: n },)),
        ensures
            forall|j: int| 0 <= j < r.out@.len() ==> produced_by(f, self.ids@, #[trigger] r.out@[j]),
            forall|n: u64| #[trigger] self.ids@.contains(n) ==> consumed_into(f, n, r.out@),
    { unimplemented!() }
}
impl NameIter {
    // Iterator::map_while(f): f is called on the elements in order until it returns None for the first time; the Some results up to
    // there are what comes out - so, unlike filter_map, nothing is promised about the elements after that point
    #[verifier::external_body]
    pub fn map_while<'a, F: Fn(&Name) -> Option<Update<'a>>>(self, f: F) -> (r: FilterMapped<'a>)
        requires forall|n: u64| self.ids@.contains(n) ==> #[trigger] f.requires((&Name { id: n },)),
        ensures forall|j: int| 0 <= j < r.out@.len() ==> produced_by(f, self.ids@, #[trigger] r.out@[j]),
    { unimplemented!() }
}
impl<'a> FilterMapped<'a> {
    #[verifier::external_body]
    pub fn collect(self) -> (r: Vec<Update<'a>>) ensures r@ == self.out@ { unimplemented!() }
}
//@item file=junos-agent/src/policies/mod.rs kind=struct name=Policies sub=/pub(crate) =>pub ;map: HashMap<Name, T>=>pub map: NameMap<T>/
//@item file=junos-agent/src/policies/mod.rs kind=struct name=Updates sub=/pub(crate) =>pub ;inner:=>pub inner:/

spec fn opt_ref<'a, T>(m: Map<u64, T>, n: u64) -> Option<&'a T> { if m.contains_key(n) { Some(&m[n]) } else { None } }
// C01 / C03 at the level of the whole comparison: every installed policy that is no longer a candidate is deleted, and only those;
// every update / delete that comes out is the one the per-name case split prescribes
spec fn explained<'a>(ev: Map<u64, Evaluated>, inst: Map<u64, Installed>, u: Update<'a>) -> bool {
    exists|n: u64| (ev.contains_key(n) || inst.contains_key(n)) && #[trigger] decide_post(Name { id: n }, opt_ref(ev, n), opt_ref(inst, n), Some(u))
}
spec fn deletes_unmanaged<'a>(ev: Map<u64, Evaluated>, inst: Map<u64, Installed>, out: Seq<Update<'a>>) -> bool {
    forall|n: u64| #[trigger] inst.contains_key(n) && !ev.contains_key(n) ==> out.contains(Update::Delete { name: Name { id: n } })
}
// completeness for updates: every candidate that was evaluated (has ranges) gets its update, whatever happened to the others
spec fn is_update_for<'a>(u: Update<'a>, n: u64) -> bool { u matches Update::Update { name, .. } && name.id == n }
spec fn updates_evaluated<'a>(ev: Map<u64, Evaluated>, out: Seq<Update<'a>>) -> bool {
    forall|n: u64| #[trigger] ev.contains_key(n) && ev[n].ranges is Some ==> exists|j: int| 0 <= j < out.len() && is_update_for(#[trigger] out[j], n)
}
spec fn all_explained<'a>(ev: Map<u64, Evaluated>, inst: Map<u64, Installed>, out: Seq<Update<'a>>) -> bool {
    forall|j: int| 0 <= j < out.len() ==> explained(ev, inst, #[trigger] out[j])
}

impl Policies<Evaluated> {
//@extract id=policies_compare file=junos-agent/src/policies/compare.rs impl=/impl Policies<Evaluated>/ fn=compare rules=R1,R7,R17 r7map=option
//@sig fn compare<'a>(&'a self, installed: &'a Policies<Installed>) -> (res: Updates<'a>)
//@contract
        ensures
            deletes_unmanaged(self.map.m@, installed.map.m@, res.inner@),                     // OBL:C01.compare.every_unmanaged_installed_policy_is_deleted
            all_explained(self.map.m@, installed.map.m@, res.inner@),                         // OBL:C01+C03.compare.nothing_but_the_prescribed_updates
            updates_evaluated(self.map.m@, res.inner@),                                       // OBL:C15+C01.compare.every_evaluated_policy_is_updated
//@closure 1
                -> (r: Option<Update<'a>>)
                requires self.map.m@.contains_key(name.id) || installed.map.m@.contains_key(name.id),
                ensures decide_post(*name, opt_ref(self.map.m@, name.id), opt_ref(installed.map.m@, name.id), r)   // OBL:C03+C01+C02.compare.decide_in_pipeline
//@end
}

// ---------- eval.rs: a failed evaluation is recorded as 'no ranges' ----------
pub struct EvalError;
pub struct PrefixSet<A: Afi> { pub _a: core::marker::PhantomData<A> }
pub struct RangeIter<A: Afi> { pub _a: core::marker::PhantomData<A> }
impl<A: Afi> PrefixSet<A> {
    #[verifier::external_body]
    pub fn ranges(&self) -> (r: RangeIter<A>) { unimplemented!() }
}
impl<A: Afi> RangeIter<A> {
    #[verifier::external_body]
    pub fn collect<B>(self) -> (r: B) { unimplemented!() }
}
pub struct EvaluatedSet;
impl EvaluatedSet {
    #[verifier::external_body]
    pub fn as_partitions(&self) -> (r: (&PrefixSet<Ipv4>, &PrefixSet<Ipv6>)) { unimplemented!() }
}
impl Clone for MpFilterExpr { fn clone(&self) -> (r: Self) ensures r == *self { MpFilterExpr { id: self.id } } }
// bgpfu::RpslEvaluator::evaluate: Ok(set) or Err (unknown as-set, IRR error response, IRR unreachable, unsupported construct)
// `asked`: ghost log of the expressions handed to the evaluator so far
pub struct RpslEvaluator { pub last_ok: Ghost<bool>, pub asked: Ghost<Seq<u64>> }
// the expression - including the filter-sets it refers to - contains no AS-path regular expression and no attribute match.
// rpsl-0.1.1 src/expr/eval/mod.rs:111-112 evaluates these two kinds of literal with `todo!()`: RpslEvaluator::evaluate returns
// a Result only for the other constructs and PANICS for these (finding F12).
pub uninterp spec fn only_implemented_constructs(expr: MpFilterExpr) -> bool;
impl RpslEvaluator {
    #[verifier::external_body]
    pub fn evaluate(&mut self, expr: MpFilterExpr) -> (r: Result<EvaluatedSet, EvalError>)
        requires only_implemented_constructs(expr),                                             // OBL:C15.eval.evaluator_panics_on_unimplemented_constructs
        ensures final(self).last_ok@ == (r is Ok), final(self).asked@ == old(self).asked@.push(expr.id)
    { unimplemented!() }
}
//@item file=junos-agent/src/policies/mod.rs kind=struct name=Candidate sub=/pub(crate) =>pub /
impl Candidate {
//@extract id=candidate_evaluate file=junos-agent/src/policies/eval.rs impl=/impl Evaluate for Candidate/ fn=evaluate rules=R1,R2,R7,R17 r7map=result
//@contract
        ensures
            res.filter_expr == self.filter_expr,
            // C03: evaluation failure (for whatever reason) is recorded as 'no ranges', never as empty ranges
            res.ranges is Some <==> final(evaluator).last_ok@,                              // OBL:C03.eval.failure_means_no_ranges
            // C15: evaluating a candidate means asking the evaluator about its expression - exactly once
            final(evaluator).asked@ == old(evaluator).asked@.push(self.filter_expr.id),         // OBL:C15.eval.candidate_is_handed_to_the_evaluator
//@end
}

// ---------- Policies::<Candidate>::evaluate: every candidate stays in the result, evaluated or not ----------
pub struct MapIntoIter<T> { pub items: Ghost<Seq<(u64, T)>>, pub pos: Ghost<int> }
pub struct Collector<T> { pub m: Ghost<Map<u64, T>> }
impl<T> NameMap<T> {
    // HashMap::into_iter: every entry exactly once, arbitrary order
    #[verifier::external_body]
    pub fn into_iter(self) -> (r: MapIntoIter<T>)
        ensures r.pos@ == 0,
            forall|i: int| 0 <= i < r.items@.len() ==> self.m@.contains_key((#[trigger] r.items@[i]).0) && self.m@[r.items@[i].0] == r.items@[i].1,
            forall|n: u64| #[trigger] self.m@.contains_key(n) ==> exists|i: int| 0 <= i < r.items@.len() && (#[trigger] r.items@[i]).0 == n,
    { unimplemented!() }
    #[verifier::external_body]
    pub fn len(&self) -> (r: usize) { unimplemented!() }
}
impl<T> MapIntoIter<T> {
    #[verifier::external_body]
    pub fn next(&mut self) -> (r: Option<(Name, T)>)
        requires 0 <= old(self).pos@ <= old(self).items@.len(),
        ensures final(self).items@ == old(self).items@, 0 <= final(self).pos@ <= final(self).items@.len(),
            match r { Some(p) => old(self).pos@ < old(self).items@.len() && p.0.id == old(self).items@[old(self).pos@].0 && p.1 == old(self).items@[old(self).pos@].1 && final(self).pos@ == old(self).pos@ + 1,
                      None => old(self).pos@ == old(self).items@.len() && final(self).pos@ == old(self).pos@ }
    { unimplemented!() }
}
impl<T> Collector<T> {
    #[verifier::external_body]
    pub fn new() -> (r: Collector<T>) ensures r.m@ == Map::<u64, T>::empty() { unimplemented!() }
    #[verifier::external_body]
    pub fn push(&mut self, e: (Name, T)) ensures final(self).m@ == old(self).m@.insert(e.0.id, e.1) { unimplemented!() }
    #[verifier::external_body]
    pub fn finish(self) -> (r: NameMap<T>) ensures r.m@ == self.m@ { unimplemented!() }
}
// other members of Policies (mod.rs) that changes to these functions plausibly call: ASSUMED contracts
impl Policies<Evaluated> {
    #[verifier::external_body]
    pub fn succeeded(&self) -> (r: usize) { unimplemented!() }
}
impl<T> Policies<T> {
    #[verifier::external_body]
    pub fn len(&self) -> (r: usize) { unimplemented!() }
    #[verifier::external_body]
    pub fn default() -> (r: Self) ensures r.map.m@ == Map::<u64, T>::empty() { unimplemented!() }
}
pub proof fn lemma_push_contains(s: Seq<u64>, x: u64)
    ensures s.push(x).contains(x), forall|y: u64| s.contains(y) ==> #[trigger] s.push(x).contains(y),
{
    assert(s.push(x)[s.len() as int] == x);
    assert forall|y: u64| s.contains(y) implies #[trigger] s.push(x).contains(y) by {
        let i = choose|i: int| 0 <= i < s.len() && s[i] == y;
        assert(s.push(x)[i] == y);
    }
}
spec fn kept(o: Map<u64, Evaluated>, s: Map<u64, Candidate>) -> bool {
    forall|n: u64| #[trigger] o.contains_key(n) ==> s.contains_key(n) && o[n].filter_expr == s[n].filter_expr
}
impl Policies<Candidate> {
//@extract id=policies_evaluate file=junos-agent/src/policies/eval.rs impl=/impl Evaluate for Policies<Candidate>/ fn=evaluate rules=R1,R2,R17,R25,R7 r7mapor=option
//@sig fn evaluate(self, evaluator: &mut RpslEvaluator) -> (res: Policies<Evaluated>)
//@contract
        // C03 / C15: whatever happens to individual evaluations, every candidate (= policy still marked as managed) is present in
        // the result with its own expression - a failed one without ranges - so compare() never mistakes it for "no longer managed"
        ensures
            forall|n: u64| #[trigger] self.map.m@.contains_key(n) ==> res.map.m@.contains_key(n) && res.map.m@[n].filter_expr == self.map.m@[n].filter_expr,   // OBL:C03+C15.evaluate.every_candidate_is_kept
            forall|n: u64| #[trigger] res.map.m@.contains_key(n) ==> self.map.m@.contains_key(n),
            // C15: every candidate is handed to the evaluator, whatever happened to the ones before it
            forall|n: u64| #[trigger] self.map.m@.contains_key(n) ==> final(evaluator).asked@.contains(self.map.m@[n].filter_expr.id),   // OBL:C15.evaluate.every_candidate_is_evaluated
//@loop 1
            invariant
                0 <= it__0.pos@ <= it__0.items@.len(),
                forall|i: int| 0 <= i < it__0.pos@ ==> evaluator.asked@.contains((#[trigger] it__0.items@[i]).1.filter_expr.id),   // OBL:C15.evaluate.evaluated_so_far
                forall|i: int| 0 <= i < it__0.items@.len() ==> self.map.m@.contains_key((#[trigger] it__0.items@[i]).0) && self.map.m@[it__0.items@[i].0] == it__0.items@[i].1,
                forall|n: u64| #[trigger] self.map.m@.contains_key(n) ==> exists|i: int| 0 <= i < it__0.items@.len() && (#[trigger] it__0.items@[i]).0 == n,
                forall|i: int| 0 <= i < it__0.pos@ ==> out__0.m@.contains_key((#[trigger] it__0.items@[i]).0),
                kept(out__0.m@, self.map.m@),
            ensures it__0.pos@ == it__0.items@.len(),
            decreases it__0.items@.len() - it__0.pos@,
//@after /let evaluated = / optional
                proof {
                    // total lemmas about the evaluator's log (cannot fail): whatever was asked before is still in the log after one
                    // more question, and the last question is in the log
                    assert forall|q: Seq<u64>, x: u64| #![trigger q.push(x)] q.push(x).contains(x) && (forall|y: u64| q.contains(y) ==> #[trigger] q.push(x).contains(y)) by { lemma_push_contains(q, x); }
                }
//@end
}

} // verus!
fn main() {}

// Unit A4 — per-policy case split evaluated x installed -> Update / Delete / none (C03, C01 'no stale policy').
use vstd::prelude::*;
verus! {

// ---------- shims: types of dependencies (opaque) ----------
pub struct MpFilterExpr { pub id: u64 }           // rpsl::expr::MpFilterExpr
pub trait Afi {}                                   // ip::Afi
pub struct Ipv4; impl Afi for Ipv4 {}
pub struct Ipv6; impl Afi for Ipv6 {}
pub struct Name { pub id: u64 }                    // Name(Arc<str>)
impl Clone for Name { fn clone(&self) -> (r: Self) ensures r == *self { Name { id: self.id } } }
// Ranges<A> { inner: HashSet<PrefixRange<A>> }: only its identity matters to the case split
pub struct Ranges<A: Afi> { pub id: u64, pub _a: core::marker::PhantomData<A> }
impl<A: Afi> Ranges<A> {
    #[verifier::external_body]
    pub fn is_empty(&self) -> (r: bool) { unimplemented!() }
}

//@item file=junos-agent/src/policies/mod.rs kind=struct name=Installed sub=/pub(crate) =>pub /
//@item file=junos-agent/src/policies/mod.rs kind=struct name=Evaluated sub=/pub(crate) =>pub /
//@item file=junos-agent/src/policies/mod.rs kind=enum name=Update sub=/pub(crate) =>pub /
//@item file=junos-agent/src/policies/mod.rs kind=struct name=Differences sub=/pub(crate) =>pub /

impl<'a, A: Afi> Differences<'a, A> {
//@extract id=differences_new file=junos-agent/src/policies/compare.rs impl=/Differences<'a, A>/ fn=new rules=R1,R7,R17 r7map=option
//@contract
        ensures res.old == old, res.new == new,                                              // OBL:C01+C02+C03.compare.differences_carry_installed_and_evaluated
//@end
}

// C03 / C01, from the property text, for one policy name:
spec fn decide_post<'a>(name: Name, e: Option<&'a Evaluated>, i: Option<&'a Installed>, r: Option<Update<'a>>) -> bool {
    match e {
        // evaluation failed (no ranges): neither an update nor a delete is produced
        Some(ev) if ev.ranges is None => r is None,
        // an evaluated policy is updated towards exactly its evaluated ranges, relative to exactly the installed ranges
        Some(ev) => match r {
            Some(Update::Update { name: n, filter_expr, ipv4, ipv6 }) =>
                n == name && *filter_expr == ev.filter_expr
                && *ipv4.new == ev.ranges->Some_0.0 && *ipv6.new == ev.ranges->Some_0.1
                && (match i { Some(inst) => ipv4.old == Some(&inst.ipv4) && ipv6.old == Some(&inst.ipv6),
                              None => ipv4.old is None && ipv6.old is None }),
            _ => false,
        },
        // a delete is produced only, and always, for an installed policy that is no longer a candidate
        None => i is Some && (r matches Some(Update::Delete { name: n }) && n == name),
    }
}

//@extract id=compare_decide file=junos-agent/src/policies/compare.rs impl=/impl Policies<Evaluated>/ fn=compare expr=/match \(self\.map\.get\(name\), installed\.map\.get\(name\)\)/ rules=R1
//@+ sub=/(self.map.get(name), installed.map.get(name))=>(e, i)/
//@sig fn decide<'a>(name: &Name, e: Option<&'a Evaluated>, i: Option<&'a Installed>) -> (res: Option<Update<'a>>)
//@contract
    // the closure is only called for names in keys(evaluated) ∪ keys(installed)  (`unreachable!()` otherwise)
    requires e is Some || i is Some,
    ensures decide_post(*name, e, i, res),                                               // OBL:C03+C01+C02.compare.decide
//@end

// ---------- eval.rs: a failed evaluation is recorded as 'no ranges' ----------
pub struct EvalError;
pub struct PrefixSet<A: Afi> { pub _a: core::marker::PhantomData<A> }
pub struct RangeIter<A: Afi> { pub _a: core::marker::PhantomData<A> }
impl<A: Afi> PrefixSet<A> {
    #[verifier::external_body]
    pub fn ranges(&self) -> (r: RangeIter<A>) { unimplemented!() }
}
impl<A: Afi> RangeIter<A> {
    #[verifier::external_body]
    pub fn collect<B>(self) -> (r: B) { unimplemented!() }
}
pub struct EvaluatedSet;
impl EvaluatedSet {
    #[verifier::external_body]
    pub fn as_partitions(&self) -> (r: (&PrefixSet<Ipv4>, &PrefixSet<Ipv6>)) { unimplemented!() }
}
impl Clone for MpFilterExpr { fn clone(&self) -> (r: Self) ensures r == *self { MpFilterExpr { id: self.id } } }
// bgpfu::RpslEvaluator::evaluate: Ok(set) or Err (unknown as-set, IRR error response, IRR unreachable, unsupported construct)
pub struct RpslEvaluator { pub last_ok: Ghost<bool> }
impl RpslEvaluator {
    #[verifier::external_body]
    pub fn evaluate(&mut self, expr: MpFilterExpr) -> (r: Result<EvaluatedSet, EvalError>)
        ensures final(self).last_ok@ == (r is Ok)
    { unimplemented!() }
}
//@item file=junos-agent/src/policies/mod.rs kind=struct name=Candidate sub=/pub(crate) =>pub /
impl Candidate {
//@extract id=candidate_evaluate file=junos-agent/src/policies/eval.rs impl=/impl Evaluate for Candidate/ fn=evaluate rules=R1,R2,R7,R17 r7map=result
//@contract
        ensures
            res.filter_expr == self.filter_expr,
            // C03: evaluation failure (for whatever reason) is recorded as 'no ranges', never as empty ranges
            res.ranges is Some <==> final(evaluator).last_ok@,                              // OBL:C03.eval.failure_means_no_ranges
//@end
}

} // verus!
fn main() {}

// Unit A3 — request / reply matching (C05): sequential core with a lock invariant on the shared request map.
use vstd::prelude::*;
use std::mem;
verus! {

pub assume_specification<T> [std::mem::replace] (dest: &mut T, src: T) -> (r: T) ensures r == *old(dest), *final(dest) == src;

// ---------- shims ----------
pub enum ReadError { MessageIdMismatch { initial: MessageId, new: MessageId }, Other }
impl ReadError {
    #[verifier::external_body]
    pub fn message_id_mismatch(initial: rpc::MessageId, new: rpc::MessageId) -> (r: ReadError) { unimplemented!() }
}
pub enum Error {
    RequestComplete,
    RequestNotFound { message_id: rpc::MessageId },
    MessageIdCollision { message_id: rpc::MessageId },
    ReadMessage(ReadError),
    Transport(IoError),
    DequeueMessage,
    EnqueueMessage,
    Rpc,
}
// std::io::{Error, ErrorKind} under the names the code uses
pub mod io { pub use super::IoErrorKind as ErrorKind; pub use super::IoError as Error; }
pub struct IoError { pub kind: IoErrorKind }
#[derive(PartialEq, Eq, Structural)]
pub enum IoErrorKind { UnexpectedEof, ConnectionReset, ConnectionAborted, BrokenPipe, NotConnected, Other }
impl IoError { pub fn kind(&self) -> (r: IoErrorKind) ensures r == self.kind { match self.kind { IoErrorKind::UnexpectedEof => IoErrorKind::UnexpectedEof, IoErrorKind::ConnectionReset => IoErrorKind::ConnectionReset, IoErrorKind::ConnectionAborted => IoErrorKind::ConnectionAborted, IoErrorKind::BrokenPipe => IoErrorKind::BrokenPipe, IoErrorKind::NotConnected => IoErrorKind::NotConnected, IoErrorKind::Other => IoErrorKind::Other } } }
impl From<ReadError> for Error { #[verifier::external_body] fn from(e: ReadError) -> (r: Error) { unimplemented!() } }

// (defined at the crate root and re-exported: deriving Structural inside a module trips a Verus internal error)
#[derive(Clone, Copy, PartialEq, Eq, Structural)]
//@item file=netconf/src/message/rpc/mod.rs kind=struct name=MessageId sub=/MessageId(usize)=>MessageId(pub usize)/
impl MessageId {
//@extract id=message_id_increment file=netconf/src/message/rpc/mod.rs impl=/^impl MessageId/ fn=increment rules=R1 vis=pub optional=1
//@contract
        // ids are strictly increasing, hence never reused on a session (usize::MAX requests on one session are excluded)
        requires old(self).0 < usize::MAX,
        ensures final(self).0 == old(self).0 + 1, res == *final(self),                    // OBL:C05.message_id.strictly_increasing
//@end
}

pub mod rpc {
use super::*;
pub use super::MessageId;
pub use super::Request;
// PartialReply { message_id, buf }: the first parse phase extracted the id; `doc` stands for the buffered document
pub struct PartialReply { pub message_id: MessageId, pub doc: u64 }
impl PartialReply {
//@extract id=partial_reply_message_id file=netconf/src/message/rpc/mod.rs impl=/^impl PartialReply/ fn=message_id rules=R1 vis=pub
//@contract
        ensures res == self.message_id,
//@end
    // ServerMsg::recv: the next message from the transport (arbitrary); an Err is a transport / framing / decoding failure.
    // Reading again from a transport that has just reported a failure is a retry loop: a peer that is gone makes it spin (C07).
    #[verifier::external_body]
    pub fn recv(rx: &mut RecvHandle) -> (r: Result<PartialReply, Error>)
        requires !old(rx).failed@,                                                           // OBL:C07+C05.session.transport_error_is_not_retried
        ensures final(rx).failed@ == (r is Err),
    { unimplemented!() }
}
// Reply<O> { message_id, inner }: the second parse phase; from_xml parses the whole buffered document
pub struct ReplyInner { pub doc: u64 }
pub struct ReplyOk;
pub struct Reply { pub message_id: MessageId, pub inner: ReplyInner }
impl Reply {
    #[verifier::external_body]
    pub fn from_xml(doc: &u64) -> (r: Result<Reply, ReadError>) ensures r matches Ok(x) ==> x.inner.doc == *doc { unimplemented!() }
    #[verifier::external_body]
    pub fn into_result(self) -> (r: Result<ReplyOk, Error>) { unimplemented!() }
//@extract id=reply_try_from file=netconf/src/message/rpc/mod.rs impl=/TryFrom<PartialReply> for Reply<O>/ fn=try_from rules=R1
//@+ sub=/Self::Error::=>ReadError::;;&value.buf=>&value.doc/
//@sig pub fn try_from(value: PartialReply) -> (res: Result<Self, ReadError>)
//@contract
        ensures res matches Ok(r) ==> r.message_id == value.message_id && r.inner.doc == value.doc,   // OBL:C05.reply.id_cross_check
//@end
}
} // mod rpc

pub struct RecvHandle { pub failed: Ghost<bool> }
pub struct RxMutex { pub h: RecvHandle }
impl RxMutex {
    // Arc<Mutex<RecvHandle>>::lock().await  (sequential model: exclusive access)
    #[verifier::external_body]
    pub fn lock(&mut self) -> (r: &mut RecvHandle) ensures *r == old(self).h, final(self).h == *final(r) { unimplemented!() }
}
// std::mem::drop of the receive guard: releases the lock, the handle itself is untouched
pub fn drop(t: &mut RecvHandle) ensures *final(t) == *old(t) {}

//@item file=netconf/src/session.rs kind=enum name=OutstandingRequest sub=/enum OutstandingRequest=>pub enum OutstandingRequest/
impl OutstandingRequest {
//@extract id=outstanding_request_take file=netconf/src/session.rs impl=/^impl OutstandingRequest/ fn=take rules=R1 vis=pub
//@contract
        ensures match *old(self) {
            // not yet answered: nothing is handed out and the slot keeps waiting
            OutstandingRequest::Pending => res == Ok::<Option<rpc::PartialReply>, Error>(None) && *final(self) == OutstandingRequest::Pending,
            // answered: the parked reply is handed out exactly once
            OutstandingRequest::Ready(r) => res == Ok::<Option<rpc::PartialReply>, Error>(Some(r)) && *final(self) == OutstandingRequest::Complete,
            // already handed out: never a second time
            OutstandingRequest::Complete => res is Err && *final(self) == OutstandingRequest::Complete,
        },                                                                                 // OBL:C05.take.exactly_once
//@end
}

// Arc<Mutex<HashMap<MessageId, OutstandingRequest>>>, sequential model: `m` is the map's content.
pub struct ReqMap { pub m: Ghost<Map<rpc::MessageId, OutstandingRequest>> }
// lock invariant: a parked reply is always parked under its own message-id
pub open spec fn inv(m: Map<rpc::MessageId, OutstandingRequest>) -> bool {
    forall|k: rpc::MessageId| #[trigger] m.contains_key(k) ==> (m[k] matches OutstandingRequest::Ready(r) ==> r.message_id == k)
}
// what other tasks may do to the map while this task is suspended (each item is the guarantee of this same code):
// insert fresh ids as Pending, turn a Pending slot into Ready(r) with r.message_id == k, complete their own slot;
// nobody but the owner touches slot `me`... except that a reader may park the owner's reply there.
pub open spec fn rely(me: rpc::MessageId, m0: Map<rpc::MessageId, OutstandingRequest>, m1: Map<rpc::MessageId, OutstandingRequest>) -> bool {
    &&& inv(m0) ==> inv(m1)
    &&& forall|k: rpc::MessageId| #[trigger] m0.contains_key(k) ==> m1.contains_key(k)
    &&& m0.contains_key(me) ==> (m1[me] == m0[me] || (m0[me] is Pending && m1[me] is Ready))
}
impl ReqMap {
    #[verifier::external_body]
    pub fn lock(&mut self) -> (r: &mut ReqMap)
        ensures r.m@ == old(self).m@, final(self).m@ == final(r).m@
    { unimplemented!() }
    // HashMap::get_mut
    #[verifier::external_body]
    pub fn get_mut(&mut self, k: &rpc::MessageId) -> (r: Option<&mut OutstandingRequest>)
        ensures match r {
            Some(slot) => old(self).m@.contains_key(*k) && *slot == old(self).m@[*k] && final(self).m@ == old(self).m@.insert(*k, *final(slot)),
            None => !old(self).m@.contains_key(*k) && final(self).m@ == old(self).m@,
        }
    { unimplemented!() }
    // an await point at which other tasks of the session may run
    #[verifier::external_body]
    pub fn interference(&mut self, Ghost(me): Ghost<rpc::MessageId>)
        ensures rely(me, old(self).m@, final(self).m@)
    { unimplemented!() }
    // an await point reached WHILE THIS TASK HOLDS THE RECEIVE LOCK: replies are read and parked only by the holder of that
    // lock, so no other task can turn a Pending slot into Ready meanwhile (they may still insert new requests and complete
    // their own slots)
    #[verifier::external_body]
    pub fn interference_holding_rx(&mut self, Ghost(me): Ghost<rpc::MessageId>)
        ensures rely(me, old(self).m@, final(self).m@),
                old(self).m@.contains_key(me) ==> final(self).m@[me] == old(self).m@[me],
    { unimplemented!() }
}


// ---------- Session::rpc: every request goes out under a message-id not used before on the session ----------
pub struct Context;
pub struct Operation { pub id: u64 }
pub struct BuildFn;
// O::new(&self.context, build_fn): capability check + builder (unit a5); here only its Result matters
#[verifier::external_body]
pub fn build_operation(ctx: &Context, f: BuildFn) -> (r: Result<Operation, Error>) { unimplemented!() }
// the send half of the transport; `sent` = message-ids of all <rpc> frames ever handed to the transport on this session
// `sent_ok` = those for which the transport reported success (the request is certainly on its way; a reply may arrive at once)
pub struct SendHandle { pub sent: Ghost<Set<MessageId>>, pub sent_ok: Ghost<Set<MessageId>> }
pub struct TxMutex { pub h: SendHandle }
impl TxMutex {
    #[verifier::external_body]
    pub fn lock(&mut self) -> (r: &mut SendHandle) ensures *r == old(self).h, final(self).h == *final(r) { unimplemented!() }
}
pub struct Request { pub message_id: MessageId, pub operation: Operation }
impl Request {
    pub fn new(message_id: MessageId, operation: Operation) -> (r: Request) ensures r.message_id == message_id { Request { message_id, operation } }
    // ClientMsg::send: serialise and hand to the transport. Whether or not an error is reported, the frame may have
    // reached the server, so the id counts as used either way.
    #[verifier::external_body]
    pub fn send(&self, tx: &mut SendHandle) -> (r: Result<(), Error>)
        requires !old(tx).sent@.contains(self.message_id),                                  // OBL:C05.rpc.message_id_not_used_before
        ensures final(tx).sent@ == old(tx).sent@.insert(self.message_id),
                final(tx).sent_ok@ == (if r is Ok { old(tx).sent_ok@.insert(self.message_id) } else { old(tx).sent_ok@ }),
    { unimplemented!() }
}
pub enum Entry<'a> { Occupied(OccupiedEntry), Vacant(VacantEntry<'a>) }
pub struct OccupiedEntry;
pub struct VacantEntry<'a> { pub map: &'a mut ReqMap, pub key: MessageId }
impl<'a> VacantEntry<'a> {
    #[verifier::external_body]
    pub fn insert(self, v: OutstandingRequest) -> (r: u8)
        ensures final(self.map).m@ == old(self.map).m@.insert(self.key, v)
    { unimplemented!() }
}
impl ReqMap {
    // HashMap::entry
    #[verifier::external_body]
    pub fn entry<'a>(&'a mut self, k: MessageId) -> (r: Entry<'a>)
        ensures match r {
            Entry::Occupied(_) => old(self).m@.contains_key(k) && final(self).m@ == old(self).m@,
            Entry::Vacant(v) => !old(self).m@.contains_key(k) && v.key == k && v.map.m@ == old(self).m@ && final(self).m@ == final(v.map).m@,
        }
    { unimplemented!() }
    #[verifier::external_body]
    pub fn clone(&self) -> (r: MapHandle) { unimplemented!() }
    #[verifier::external_body]
    pub fn contains_key(&self, k: &MessageId) -> (r: bool) ensures r == self.m@.contains_key(*k) { unimplemented!() }
    #[verifier::external_body]
    pub fn insert(&mut self, k: MessageId, v: OutstandingRequest) -> (r: Option<OutstandingRequest>)
        ensures final(self).m@ == old(self).m@.insert(k, v), r is Some <==> old(self).m@.contains_key(k)
    { unimplemented!() }
    #[verifier::external_body]
    pub fn remove(&mut self, k: &MessageId) -> (r: Option<OutstandingRequest>)
        ensures final(self).m@ == old(self).m@.remove(*k), r is Some <==> old(self).m@.contains_key(*k)
    { unimplemented!() }
}
pub struct MapHandle;
pub struct RxHandle;
impl RxMutex { #[verifier::external_body] pub fn clone(&self) -> (r: RxHandle) { unimplemented!() } }
pub struct ReplyFuture { pub message_id: MessageId }
impl ReplyFuture {
    pub fn new(message_id: MessageId, requests: MapHandle, rx: RxHandle) -> (r: ReplyFuture) ensures r.message_id == message_id { ReplyFuture { message_id } }
}
pub struct Session { pub transport_tx: TxMutex, pub transport_rx: RxMutex, pub context: Context, pub last_message_id: MessageId, pub requests: ReqMap }
// invariant of the request-map lock: whenever the lock is free, every request that was successfully handed to the transport has
// its slot in the map - otherwise another waiter that reads the reply in the meantime finds no slot for it (RequestNotFound
// for that waiter, and the reply is lost for its owner)
pub open spec fn wire_has_slots(sent_ok: Set<MessageId>, m: Map<MessageId, OutstandingRequest>) -> bool {
    forall|id: MessageId| #[trigger] sent_ok.contains(id) ==> m.contains_key(id)
}
// session invariant: every id ever put on the wire, and every key of the request map, is <= the counter
pub open spec fn session_inv(s: Session) -> bool {
    &&& wire_has_slots(s.transport_tx.h.sent_ok@, s.requests.m@)
    &&& forall|id: MessageId| #[trigger] s.transport_tx.h.sent_ok@.contains(id) ==> s.transport_tx.h.sent@.contains(id)
    &&& forall|id: MessageId| #[trigger] s.transport_tx.h.sent@.contains(id) ==> id.0 <= s.last_message_id.0
    &&& forall|id: MessageId| #[trigger] s.requests.m@.contains_key(id) ==> id.0 <= s.last_message_id.0
    &&& inv(s.requests.m@)
}
impl Session {
//@extract id=session_rpc file=netconf/src/session.rs impl=/impl<T: Transport> Session<T>/ fn=rpc rules=R1,R2,R3,R7,R17 r7map=result
//@+ sub=/O::new(&self.context, build_fn)=>build_operation(&self.context, build_fn);;Self::recv::<O>(message_id, requests, rx)=>ReplyFuture::new(message_id, requests, rx)/
//@sig pub fn rpc(&mut self, build_fn: BuildFn) -> (res: Result<ReplyFuture, Error>)
//@contract
        requires session_inv(*old(self)), old(self).last_message_id.0 < usize::MAX,
        ensures
            session_inv(*final(self)),                                                          // OBL:C05.rpc.counter_covers_every_used_id
            final(self).last_message_id.0 >= old(self).last_message_id.0,
            res matches Ok(fut) ==> {
                &&& !old(self).transport_tx.h.sent@.contains(fut.message_id)                    // OBL:C05.rpc.fresh_id
                &&& final(self).transport_tx.h.sent@ == old(self).transport_tx.h.sent@.insert(fut.message_id)
                &&& final(self).requests.m@ == old(self).requests.m@.insert(fut.message_id, OutstandingRequest::Pending)   // OBL:C05.rpc.slot_pending_under_own_id
            },
// every acquisition of the request-map lock: the lock is free at that moment, so its invariant must hold there
//@check-before-stmt /\.requests\s*\.lock\(\)/ 1
        assert(wire_has_slots(self.transport_tx.h.sent_ok@, self.requests.m@));                 // OBL:C05.rpc.slot_exists_whenever_map_lock_is_free
//@check-before-stmt /\.requests\s*\.lock\(\)/ 2 optional
        assert(wire_has_slots(self.transport_tx.h.sent_ok@, self.requests.m@));                 // OBL:C05.rpc.slot_exists_whenever_map_lock_is_free
//@check-before-stmt /\.requests\s*\.lock\(\)/ 3 optional
        assert(wire_has_slots(self.transport_tx.h.sent_ok@, self.requests.m@));                 // OBL:C05.rpc.slot_exists_whenever_map_lock_is_free
//@end
}

// ---------- Session::close: the outcome of <close-session> (C07: a peer that goes away surfaces as an error) ----------
// what awaiting the reply future of request `id` yields: the server's answer, or the failure met while waiting for it
// (transport error, end of stream) - arbitrary but fixed per request
pub uninterp spec fn reply_outcome(id: MessageId) -> Result<(), Error>;
// (stated variant-wise: Verus does not identify two values of type `()` that come from different calls)
pub open spec fn same_outcome(a: Result<(), Error>, b: Result<(), Error>) -> bool { match a { Ok(_) => b is Ok, Err(e) => b matches Err(f) && f == e } }
impl ReplyFuture {
    #[verifier::external_body]
    pub fn await_(self) -> (r: Result<(), Error>) ensures r == reply_outcome(self.message_id) { unimplemented!() }
}
#[verifier::external_body]
pub fn drop_session(s: Session) -> (r: ()) ensures r == () { unimplemented!() }
// awaiting an `async fn` of the sequential model: its value
pub trait AwaitDone: Sized { fn await_(self) -> (r: Self) ensures r == self; }
impl<T> AwaitDone for Result<T, Error> { fn await_(self) -> (r: Self) { self } }
impl Session {
// (sequential model: the returned future is run to completion where it is created, so the result is the pair
// "request accepted / outcome of its reply")
//@extract id=session_close file=netconf/src/session.rs impl=/impl<T: Transport> Session<T>/ fn=close rules=R1,R2,R3,R7,R16 r7map=result awaitcall=1
//@+ sub=/.rpc::<CloseSession, _>(Builder::finish)=>.rpc(BuildFn);;async move {=>{;;drop(=>drop_session(/
//@sig pub fn close(mut self) -> (res: Result<Result<(), Error>, Error>)
//@contract
        requires session_inv(self), self.last_message_id.0 < usize::MAX,
        // close() reports exactly what became of its own <close-session> request: the outcome of the reply to a message-id
        // that was fresh on this session.  In particular a transport failure or end of stream while waiting for that reply
        // (the peer went away) is passed on as the error it is, never mapped to success.
        ensures res matches Ok(done) ==> exists|id: MessageId| #![trigger reply_outcome(id)]
                    !self.transport_tx.h.sent@.contains(id) && same_outcome(done, reply_outcome(id)),   // OBL:C07+C05.close.result_is_the_outcome_of_its_own_request
//@end
}

//@extract id=session_recv file=netconf/src/session.rs impl=/impl<T: Transport> Session<T>/ fn=recv rules=R1,R2,R3,R5,R15,R17 erase=Reply
//@+ sub=/partial.try_into()=>rpc::Reply::try_from(partial)/
//@sig #[verifier::exec_allows_no_decreases_clause] pub fn recv(message_id: rpc::MessageId, requests: &mut ReqMap, rx: &mut RxMutex) -> (res: Result<rpc::ReplyOk, Error>)
//@contract
    requires inv(old(requests).m@), !old(rx).h.failed@,
    ensures
        inv(final(requests).m@),                                                            // OBL:C05.recv.replies_parked_under_own_id
//@loop 1
        invariant
            !rx.h.failed@,                                                                  // OBL:C07+C05.session.transport_error_surfaces_at_once
            inv(requests.m@),                                                         // OBL:C05.recv.lock_invariant
        // (no decreases: liveness / termination of the receive loop is NOT claimed - it waits for the server)
//@before /let mut rx_guard = rx\.lock\(\)/
            // suspension points `rx.lock().await` / `PartialReply::recv(..).await`: other tasks may run
            requests.interference(Ghost(message_id));
//@check-after /let reply: rpc::Reply = rpc::Reply::try_from\(partial\)\?;/
                // C05: what is delivered to the caller of `message_id` is a reply bearing that message-id,
                // taken from the caller's own slot, which is thereby completed (never delivered twice)
                assert(reply.message_id == message_id);                                     // OBL:C05.recv.caller_gets_reply_with_own_id
                assert(requests.m@[message_id] is Complete);                                // OBL:C05.recv.delivered_at_most_once
//@before /rpc::PartialReply::recv\(/ optional
            requests.interference_holding_rx(Ghost(message_id));
//@check-before /rpc::PartialReply::recv\(/ optional
            // C05: a waiter goes to the transport only while its own reply is not parked in the map - otherwise that reply is
            // never delivered unless some further frame happens to arrive
            assert(requests.m@.contains_key(message_id) && !(requests.m@[message_id] is Ready));   // OBL:C05.recv.reads_only_while_own_reply_is_not_parked
//@end

// ---------- Request::write_xml: the message-id that actually goes on the wire (C05) ----------
// Session::rpc above reasons about `request.message_id`; ClientMsg::send serialises the request through this function, so
// "every request carries a message-id not used before" holds on the wire only if the attribute written here is the decimal
// rendering of exactly that id (injective in the id), on the <rpc> element that encloses the operation.
pub mod wire {
use vstd::prelude::*;
use super::MessageId;
pub struct WriteError;
pub struct Unit;
// attribute value: the decimal rendering of an integer (std Display for the unsigned integer types), tracked by its value
pub struct NumStr { pub v: Ghost<int> }
impl NumStr { #[verifier::external_body] pub fn as_ref(&self) -> (r: NumStr) ensures r.v@ == self.v@ { unimplemented!() } }
pub trait ToDec { spec fn dec_value(&self) -> int; fn to_dec_(&self) -> (r: NumStr) ensures r.v@ == self.dec_value(); }
impl ToDec for usize { open spec fn dec_value(&self) -> int { *self as int } #[verifier::external_body] fn to_dec_(&self) -> (r: NumStr) { unimplemented!() } }
impl ToDec for u64 { open spec fn dec_value(&self) -> int { *self as int } #[verifier::external_body] fn to_dec_(&self) -> (r: NumStr) { unimplemented!() } }
impl ToDec for u32 { open spec fn dec_value(&self) -> int { *self as int } #[verifier::external_body] fn to_dec_(&self) -> (r: NumStr) { unimplemented!() } }
impl ToDec for u16 { open spec fn dec_value(&self) -> int { *self as int } #[verifier::external_body] fn to_dec_(&self) -> (r: NumStr) { unimplemented!() } }
impl ToDec for u8 { open spec fn dec_value(&self) -> int { *self as int } #[verifier::external_body] fn to_dec_(&self) -> (r: NumStr) { unimplemented!() } }
pub enum WNode {
    Elem { name: Seq<char>, attrs: Seq<(Seq<char>, int)>, children: Seq<WNode> },
    Operation(u64),              // whatever O::write_xml writes for operation #id (units a5 / a6)
}
// ASSUMED contract of quick-xml's Writer / ElementWriter (as in unit a6)
pub struct Writer { pub nodes: Ghost<Seq<WNode>> }
pub struct ElementWriter<'a> { pub w: &'a mut Writer, pub name: Ghost<Seq<char>>, pub attrs: Ghost<Seq<(Seq<char>, int)>> }
impl Writer {
    #[verifier::external_body]
    pub fn create_element<'a>(&'a mut self, name: &str) -> (r: ElementWriter<'a>)
        ensures r.name@ == name@, r.attrs@ == Seq::<(Seq<char>, int)>::empty(),
                r.w.nodes@ == old(self).nodes@, final(self).nodes@ == final(r.w).nodes@
    { unimplemented!() }
}
impl<'a> ElementWriter<'a> {
    #[verifier::external_body]
    pub fn with_attribute(self, kv: (&str, NumStr)) -> (r: ElementWriter<'a>)
        ensures r.name@ == self.name@, r.attrs@ == self.attrs@.push((kv.0@, kv.1.v@)),
                r.w.nodes@ == old(self.w).nodes@, final(self.w).nodes@ == final(r.w).nodes@
    { unimplemented!() }
    #[verifier::external_body]
    pub fn write_inner_content<F: FnOnce(&mut Writer) -> Result<(), WriteError>>(self, f: F) -> (r: Result<Unit, WriteError>)
        requires forall|w: &mut Writer| (*w).nodes@ == Seq::<WNode>::empty() ==> #[trigger] f.requires((w,)),
        ensures r is Ok ==> exists|w: &mut Writer| (*w).nodes@ == Seq::<WNode>::empty() && #[trigger] f.ensures((w,), Ok(()))
            && final(self.w).nodes@ == old(self.w).nodes@.push(WNode::Elem { name: self.name@, attrs: self.attrs@, children: (*final(w)).nodes@ })
    { unimplemented!() }
}
pub struct Operation { pub id: u64 }
impl Operation {
    // O::write_xml: appends the operation's element(s) and nothing else
    #[verifier::external_body]
    pub fn write_xml(&self, writer: &mut Writer) -> (r: Result<(), WriteError>)
        ensures r is Ok ==> final(writer).nodes@ == old(writer).nodes@.push(WNode::Operation(self.id))
    { unimplemented!() }
}
// RFC 6241 section 4.1: <rpc message-id="N"> operation </rpc>, N the decimal text of the request's id
pub open spec fn rpc_node(id: MessageId, op: u64) -> WNode {
    WNode::Elem {
        name: "rpc"@,
        attrs: Seq::<(Seq<char>, int)>::empty().push(("message-id"@, id.0 as int)),
        children: Seq::<WNode>::empty().push(WNode::Operation(op)),
    }
}
pub struct Request { pub message_id: MessageId, pub operation: Operation }
impl Request {
//@extract id=request_write_xml file=netconf/src/message/rpc/mod.rs impl=/impl<O: Operation> WriteXml for Request<O>/ fn=write_xml rules=R1,R7 r7map=result
//@+ optsub=/.to_string().as_ref()=>.to_dec_();;.to_string()=>.to_dec_()/
//@sig pub fn write_xml(&self, writer: &mut Writer) -> (res: Result<(), WriteError>)
//@contract
        ensures res is Ok ==> final(writer).nodes@ == old(writer).nodes@.push(rpc_node(self.message_id, self.operation.id)),   // OBL:C05.request.wire_message_id_is_the_request_id
//@closure 1
                -> (r: Result<(), WriteError>)
                requires writer.nodes@ == Seq::<WNode>::empty(),
                ensures r is Ok ==> final(writer).nodes@ == Seq::<WNode>::empty().push(WNode::Operation(self.operation.id))   // OBL:C05.request.rpc_encloses_exactly_the_operation
//@end
}
// two requests with different ids are different on the wire (the attribute value determines the id)
pub proof fn lemma_wire_ids_injective(a: MessageId, b: MessageId, op: u64)
    ensures rpc_node(a, op) == rpc_node(b, op) ==> a == b                                                                      // OBL:C05.request.wire_ids_injective
{
    if rpc_node(a, op) == rpc_node(b, op) {
        let sa = Seq::<(Seq<char>, int)>::empty().push(("message-id"@, a.0 as int));
        let sb = Seq::<(Seq<char>, int)>::empty().push(("message-id"@, b.0 as int));
        assert(rpc_node(a, op)->attrs == sa);
        assert(rpc_node(b, op)->attrs == sb);
        assert(sa[0] == sb[0]);
    }
}

// ---------- MessageId::try_from(Attribute): the id read back from a reply's message-id attribute (C05) ----------
// the attribute's (unescaped) text is tracked as a character sequence; what std's `str::parse::<usize>()` accepts is the
// ASSUMED relation `parses_as` (functional in the text; accepts the decimal rendering `dec_text(n)` of every n as n)
pub uninterp spec fn parses_as(text: Seq<char>, n: int) -> bool;
pub uninterp spec fn dec_text(n: int) -> Seq<char>;
#[verifier::external_body]
pub proof fn axiom_parse_functional(text: Seq<char>, a: int, b: int) requires parses_as(text, a), parses_as(text, b) ensures a == b {}
#[verifier::external_body]
pub proof fn axiom_parse_dec(n: int) requires n >= 0 ensures parses_as(dec_text(n), n) {}
pub struct XmlError; pub struct ParseIntError;
pub enum ReadError { MessageIdParse(ParseIntError), Xml(XmlError) }
impl From<XmlError> for ReadError { #[verifier::external_body] fn from(e: XmlError) -> (r: ReadError) { unimplemented!() } }
pub struct Attribute { pub text: Ghost<Seq<char>> }
pub struct CowStr { pub text: Ghost<Seq<char>> }
pub struct StrRef { pub text: Ghost<Seq<char>> }
impl Attribute {
    #[verifier::external_body]
    pub fn unescape_value(&self) -> (r: Result<CowStr, XmlError>) ensures r matches Ok(c) ==> c.text@ == self.text@ { unimplemented!() }
}
impl CowStr {
    #[verifier::external_body]
    pub fn as_ref(&self) -> (r: StrRef) ensures r.text@ == self.text@ { unimplemented!() }
}
impl StrRef {
    // str::parse::<usize>()
    #[verifier::external_body]
    pub fn parse(&self) -> (r: Result<usize, ParseIntError>)
        ensures match r { Ok(n) => parses_as(self.text@, n as int), Err(_) => forall|n: usize| !parses_as(self.text@, n as int) }
    { unimplemented!() }
}
impl MessageId {
//@extract id=message_id_try_from_attribute file=netconf/src/message/rpc/mod.rs impl=/impl TryFrom<Attribute<'_>> for MessageId/ fn=try_from rules=R1,R7 r7map=result
//@sig pub fn try_from(value: Attribute) -> (res: Result<Self, ReadError>)
//@contract
        // the id under which a reply is parked / delivered is the number its message-id attribute denotes - the whole
        // attribute value, nothing skipped or cut off
        ensures res matches Ok(id) ==> parses_as(value.text@, id.0 as int),                                                     // OBL:C05.message_id.reply_id_is_the_attribute_value
                (forall|n: usize| !parses_as(value.text@, n as int)) ==> res is Err,                                            // OBL:C05.message_id.non_numeric_attribute_is_rejected
//@end
}
// write then read: the id parsed from the attribute text written for request `id` is `id` again
pub proof fn lemma_message_id_wire_roundtrip(id: MessageId, back: MessageId)
    requires parses_as(dec_text(id.0 as int), back.0 as int)
    ensures back == id                                                                                                          // OBL:C05.message_id.wire_roundtrip
{
    axiom_parse_dec(id.0 as int);
    axiom_parse_functional(dec_text(id.0 as int), id.0 as int, back.0 as int);
}
} // mod wire

} // verus!
fn main() {}

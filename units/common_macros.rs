// format!(..) is not understood by Verus: every invocation becomes a call of a shim that returns an opaque string
// (R23; the formatted text is irrelevant to all properties claimed here)
#[allow(unused_macros)]
macro_rules! format { ($($t:tt)*) => { crate::format_shim() } }

// Unit A1 — end-of-message framing (C06, C07, C12-framing link).
// Everything outside //@extract ... //@end is prelude: spec functions written from the PROPERTY text,
// shims = assumed contracts of dependencies (bytes, memchr, tokio I/O), and lemmas.
use vstd::prelude::*;
verus! {

//@include units/common_framing.rs

// ---------- shims: ASSUMED contracts of dependencies ----------
pub struct Error { pub eof: bool }
pub struct IoError;
impl Error {
    // `?` on io::Error  (thiserror #[from] std::io::Error)
    #[verifier::external_body]
    pub fn from_io(e: IoError) -> (r: Error) { unimplemented!() }
}
impl From<IoError> for Error {
    #[verifier::external_body]
    fn from(e: IoError) -> (r: Error) { unimplemented!() }
}
pub mod io {
    use super::*;
    pub enum ErrorKind { UnexpectedEof }
    impl From<ErrorKind> for IoError {
        #[verifier::external_body]
        fn from(e: ErrorKind) -> (r: IoError) { unimplemented!() }
    }
    pub use super::IoError as Error;
}

pub struct Bytes { pub v: Vec<u8> }
impl View for Bytes { type V = Seq<u8>; closed spec fn view(&self) -> Seq<u8> { self.v@ } }
impl Bytes {
    pub fn len(&self) -> (r: usize) ensures r == self@.len() { self.v.len() }
    pub fn is_empty(&self) -> (r: bool) ensures r == (self@.len() == 0) { self.v.len() == 0 }
}
// the write half of a transport (tokio AsyncWriteExt): `sent` = every byte handed to the peer so far
pub struct WriteHalf { pub sent: Ghost<Seq<u8>> }
impl WriteHalf {
    // write_all: all of the buffer, or an error (after which nothing is claimed)
    #[verifier::external_body]
    pub fn write_all(&mut self, data: &Bytes) -> (r: Result<(), IoError>)
        ensures r is Ok ==> final(self).sent@ == old(self).sent@ + data@
    { unimplemented!() }
    // write: SOME prefix of the buffer (possibly not all of it), its length is returned
    #[verifier::external_body]
    pub fn write(&mut self, data: &Bytes) -> (r: Result<usize, IoError>)
        ensures r matches Ok(n) ==> n <= data@.len() && final(self).sent@ == old(self).sent@ + data@.take(n as int)
    { unimplemented!() }
    #[verifier::external_body]
    pub fn flush(&mut self) -> (r: Result<(), IoError>) ensures final(self).sent@ == old(self).sent@ { unimplemented!() }
}
pub struct BytesMut { pub v: Vec<u8> }
impl View for BytesMut { type V = Seq<u8>; closed spec fn view(&self) -> Seq<u8> { self.v@ } }
impl BytesMut {
    // a fresh, empty buffer
    #[verifier::external_body]
    pub fn new() -> (r: BytesMut) ensures r@ == Seq::<u8>::empty() { unimplemented!() }
    #[verifier::external_body]
    pub fn with_capacity(n: usize) -> (r: BytesMut) ensures r@ == Seq::<u8>::empty() { unimplemented!() }
    #[verifier::external_body]
    pub fn len(&self) -> (n: usize) ensures n == self@.len() { unimplemented!() }
    // bytes::BytesMut::split_to panics if at > len
    #[verifier::external_body]
    pub fn split_to(&mut self, at: usize) -> (r: BytesMut)
        requires at <= old(self)@.len()                                              // OBL:shim.split_to.in_bounds
        ensures r@ == old(self)@.subrange(0, at as int), final(self)@ == old(self)@.subrange(at as int, old(self)@.len() as int)
    { unimplemented!() }
    #[verifier::external_body]
    pub fn freeze(self) -> (r: Bytes) ensures r@ == self@ { unimplemented!() }
    #[verifier::external_body]
    pub fn is_empty(&self) -> (r: bool) ensures r == (self@.len() == 0) { unimplemented!() }
    #[verifier::external_body]
    pub fn clear(&mut self) ensures final(self)@ == Seq::<u8>::empty() { unimplemented!() }
    #[verifier::external_body]
    pub fn split(&mut self) -> (r: BytesMut) ensures r@ == old(self)@, final(self)@ == Seq::<u8>::empty() { unimplemented!() }
    // R6: &buf[from..]  (panics if from > len)
    #[verifier::external_body]
    pub fn slice_from(&self, from: usize) -> (r: &[u8])
        requires from <= self@.len()                                                 // OBL:shim.slice_from.in_bounds
        ensures r@ == self@.subrange(from as int, self@.len() as int)
    { unimplemented!() }
}
// memchr::memmem::Finder::new(MARKER).find(hay): first occurrence of the needle, None iff none.
pub struct Finder;
impl Finder {
    #[verifier::external_body]
    pub fn find(&self, hay: &[u8]) -> (r: Option<usize>)
        ensures match r { Some(i) => first_marker(hay@, i as int), None => !has_marker(hay@) }
    { unimplemented!() }
}
// the peer's byte stream: `stream` = every byte the peer will ever send on this connection, `pos` = how many
// of them have been read so far, `prev` = `pos` before the most recent successful read.
// tokio::io::AsyncReadExt::read_buf: appends n >= 0 of the next bytes; Ok(0) <=> end of stream
// (BytesMut grows on demand, so "no remaining capacity" cannot be the reason for 0).
pub struct ReadHalf { pub pos: Ghost<int>, pub prev: Ghost<int>, pub stream: Ghost<Seq<u8>> }
impl ReadHalf {
    #[verifier::external_body]
    pub fn read_buf(&mut self, buf: &mut BytesMut) -> (r: Result<usize, IoError>)
        requires 0 <= old(self).pos@ <= old(self).stream@.len(),
        ensures
            final(self).stream@ == old(self).stream@,
            match r {
                Ok(n) => old(self).pos@ + n <= old(self).stream@.len() && final(self).pos@ == old(self).pos@ + n
                    && final(self).prev@ == old(self).pos@
                    && final(buf)@ == old(buf)@ + old(self).stream@.subrange(old(self).pos@, old(self).pos@ + n)
                    && (n == 0 <==> old(self).pos@ == old(self).stream@.len())
                    && final(buf)@.len() < usize::MAX - 6,   // platform: an allocation is < isize::MAX bytes
                Err(_) => final(self).pos@ == old(self).pos@ && final(self).prev@ == old(self).prev@ && final(buf)@ == old(buf)@,
            }
    { unimplemented!() }
}
pub type ChildStdout = ReadHalf;

//@item file=netconf/src/message/mod.rs kind=const name=MARKER call=1

pub open spec fn recv_wf(pos: int, stream: Seq<u8>, buf: Seq<u8>) -> bool {
    0 <= pos <= stream.len() && buf.len() < usize::MAX - 6
}

// the postcondition of `recv`, written from C06 / C07
pub open spec fn recv_post(obuf: Seq<u8>, opos: int, stream: Seq<u8>, nbuf: Seq<u8>, npos: int, nprev: int, res: Result<Bytes, Error>) -> bool {
    let all = obuf + stream.subrange(opos, npos);
    &&& opos <= npos <= stream.len()
    &&& match res {
        Ok(m) => {
            // C06: exactly the bytes up to and including the FIRST delimiter; the rest stays buffered, in order
            &&& m@.len() >= 6
            &&& first_marker(all, m@.len() - 6)                                       
            &&& m@ =~= all.subrange(0, m@.len() as int)
            &&& nbuf =~= all.subrange(m@.len() as int, all.len() as int)
            // C06 promptness: delivered as soon as the delimiter has arrived, without needing further traffic
            &&& has_marker(obuf) ==> npos == opos
            &&& npos > opos ==> (opos <= nprev <= npos && !has_marker(obuf + stream.subrange(opos, nprev)))
        },
        // C07 / nothing lost on error
        Err(_) => nbuf =~= all,
    }
    // C07: a stream that ends without a further delimiter yields an error (together with termination: never a hang/spin)
    &&& !has_marker(obuf + stream.subrange(opos, stream.len() as int)) ==> res is Err
}

pub mod tls {
use super::*;
pub struct Sender { pub write: WriteHalf }
impl Sender {
//@extract id=tls_send file=netconf/src/transport/tls.rs impl=/impl SendHandle for Sender/ fn=send rules=R1,R2,R3,R17 vis=pub
//@contract
        // C06, sending side: a message (which ends with its delimiter, see ClientMsg::to_xml) is handed to the peer completely and
        // exactly once, or the call fails
        ensures res is Ok ==> final(self).write.sent@ == old(self).write.sent@ + data@,            // OBL:C06.send.whole_message_is_written
//@end
}
pub struct Receiver { pub read: ReadHalf, pub buf: BytesMut, pub finder: Finder }
impl Receiver {
    pub open spec fn wf(&self) -> bool { recv_wf(self.read.pos@, self.read.stream@, self.buf@) }

//@extract id=tls_recv file=netconf/src/transport/tls.rs impl=/impl RecvHandle for Receiver/ fn=recv rules=R1,R2,R3,R5,R6,R14,R17 consts=MARKER
//@local searched /let mut (\w+) = 0;/
//@contract
        requires old(self).wf(),
        ensures
            final(self).wf(),
            final(self).read.stream@ == old(self).read.stream@,
            recv_post(old(self).buf@, old(self).read.pos@, old(self).read.stream@, final(self).buf@, final(self).read.pos@, final(self).read.prev@, res), // OBL:C06.recv.exact_first_message
//@loop 1
            invariant
                self.read.stream@ == old(self).read.stream@,
                old(self).read.pos@ <= self.read.pos@ <= self.read.stream@.len(),
                old(self).wf(), self.wf(),
                self.buf@ =~= old(self).buf@ + old(self).read.stream@.subrange(old(self).read.pos@, self.read.pos@),  // OBL:C06.recv.buffer_is_stream_prefix
                searched <= self.buf@.len(),                                               // OBL:C06.recv.searched_in_bounds
                no_marker_before(self.buf@, searched as int),                              // OBL:C06.recv.no_marker_before_searched
                // promptness bookkeeping
                has_marker(old(self).buf@) ==> self.read.pos@ == old(self).read.pos@,      // OBL:C06.recv.prompt_no_extra_read
                self.read.pos@ > old(self).read.pos@ ==> (old(self).read.pos@ <= self.read.prev@ <= self.read.pos@
                    && !has_marker(old(self).buf@ + old(self).read.stream@.subrange(old(self).read.pos@, self.read.prev@))), // OBL:C06.recv.prompt_delivery
            decreases self.read.stream@.len() - self.read.pos@,                            // OBL:C07.recv.progress_or_error
//@before /if let Some\(\w+\) = self\.finder\.find/
            proof {
                lemma_first_marker_shift_all(self.buf@, searched as int);
                lemma_no_marker_shift(self.buf@, searched as int);
            }
            let ghost all_now = old(self).buf@ + old(self).read.stream@.subrange(old(self).read.pos@, self.read.pos@);
            let ghost all_end = old(self).buf@ + old(self).read.stream@.subrange(old(self).read.pos@, old(self).read.stream@.len() as int);
            proof {
                assert(all_now =~= all_end.subrange(0, all_now.len() as int));
                lemma_has_marker_prefix(all_end, all_now.len() as int);
            }
//@before /^\s*searched = /
            let ghost b0 = self.buf@;
            let ghost p0 = self.read.pos@;
//@after /let len = self\.read\.read_buf/
            proof {
                let ext = self.read.stream@.subrange(p0, self.read.pos@);
                lemma_no_marker_extend(b0, ext);
                assert(old(self).read.stream@.subrange(old(self).read.pos@, self.read.pos@)
                    =~= old(self).read.stream@.subrange(old(self).read.pos@, p0) + ext);
            }
//@end
}
}

pub mod junos_local {
use super::*;
pub struct Sender { pub write: WriteHalf }
impl Sender {
//@extract id=junos_local_send file=netconf/src/transport/junos_local.rs impl=/impl SendHandle for Sender/ fn=send rules=R1,R2,R3,R17 vis=pub
//@contract
        ensures res is Ok ==> final(self).write.sent@ == old(self).write.sent@ + data@,            // OBL:C06.send.whole_message_is_written
//@end
}
pub struct Receiver { pub read: ChildStdout, pub buf: BytesMut, pub finder: Finder }
impl Receiver {
    pub open spec fn wf(&self) -> bool { recv_wf(self.read.pos@, self.read.stream@, self.buf@) }

//@extract id=junos_local_recv file=netconf/src/transport/junos_local.rs impl=/impl RecvHandle for Receiver/ fn=recv rules=R1,R2,R3,R5,R6,R14,R17 consts=MARKER
//@local searched /let mut (\w+) = 0;/
//@contract
        requires old(self).wf(),
        ensures
            final(self).wf(),
            final(self).read.stream@ == old(self).read.stream@,
            recv_post(old(self).buf@, old(self).read.pos@, old(self).read.stream@, final(self).buf@, final(self).read.pos@, final(self).read.prev@, res), // OBL:C06.recv.exact_first_message
//@loop 1
            invariant
                self.read.stream@ == old(self).read.stream@,
                old(self).read.pos@ <= self.read.pos@ <= self.read.stream@.len(),
                old(self).wf(), self.wf(),
                self.buf@ =~= old(self).buf@ + old(self).read.stream@.subrange(old(self).read.pos@, self.read.pos@),  // OBL:C06.recv.buffer_is_stream_prefix
                searched <= self.buf@.len(),                                               // OBL:C06.recv.searched_in_bounds
                no_marker_before(self.buf@, searched as int),                              // OBL:C06.recv.no_marker_before_searched
                has_marker(old(self).buf@) ==> self.read.pos@ == old(self).read.pos@,      // OBL:C06.recv.prompt_no_extra_read
                self.read.pos@ > old(self).read.pos@ ==> (old(self).read.pos@ <= self.read.prev@ <= self.read.pos@
                    && !has_marker(old(self).buf@ + old(self).read.stream@.subrange(old(self).read.pos@, self.read.prev@))), // OBL:C06.recv.prompt_delivery
            decreases self.read.stream@.len() - self.read.pos@,                            // OBL:C07.recv.progress_or_error
//@before /if let Some\(\w+\) = self\.finder\.find/
            proof {
                lemma_first_marker_shift_all(self.buf@, searched as int);
                lemma_no_marker_shift(self.buf@, searched as int);
            }
            let ghost all_now = old(self).buf@ + old(self).read.stream@.subrange(old(self).read.pos@, self.read.pos@);
            let ghost all_end = old(self).buf@ + old(self).read.stream@.subrange(old(self).read.pos@, old(self).read.stream@.len() as int);
            proof {
                assert(all_now =~= all_end.subrange(0, all_now.len() as int));
                lemma_has_marker_prefix(all_end, all_now.len() as int);
            }
//@before /^\s*searched = /
            let ghost b0 = self.buf@;
            let ghost p0 = self.read.pos@;
//@after /let len = self\.read\.read_buf/
            proof {
                let ext = self.read.stream@.subrange(p0, self.read.pos@);
                lemma_no_marker_extend(b0, ext);
                assert(old(self).read.stream@.subrange(old(self).read.pos@, self.read.pos@)
                    =~= old(self).read.stream@.subrange(old(self).read.pos@, p0) + ext);
            }
//@end
}
}

} // verus!
fn main() {}

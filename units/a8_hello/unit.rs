// Unit A8 — session establishment: server <hello> reader, session-id, and the framing link of the client <hello> (C12).
use vstd::prelude::*;
verus! {

//@include units/common_xml.rs

//@bytelits capabilities=NameId::Capabilities session-id=NameId::SessionId

pub enum NameId { Capabilities, SessionId, Other }
#[verifier::opaque]
pub open spec fn name_id(s: Seq<u8>) -> NameId {
    if s =~= seq![99u8, 97, 112, 97, 98, 105, 108, 105, 116, 105, 101, 115] { NameId::Capabilities }          // "capabilities"
    else if s =~= seq![115u8, 101, 115, 115, 105, 111, 110, 45, 105, 100] { NameId::SessionId }              // "session-id"
    else { NameId::Other }
}
pub open spec fn is_start_of(it: Item, name: NameId) -> bool {
    it matches Item::Ev(ResolveResult::Bound(ns), Event::Start(tag)) && ns == xmlns::BASE && name_id(tag.lname@) == name
}
pub open spec fn count_starts(s: Seq<Item>, name: NameId) -> nat
    decreases s.len()
{
    if s.len() == 0 { 0 } else { count_starts(s.drop_last(), name) + (if is_start_of(s.last(), name) { 1nat } else { 0nat }) }
}
pub broadcast proof fn lemma_count_push(s: Seq<Item>, it: Item, name: NameId)
    ensures #[trigger] count_starts(s.push(it), name) == count_starts(s, name) + (if is_start_of(it, name) { 1nat } else { 0nat }),
{
    assert(s.push(it).drop_last() =~= s);
}
pub broadcast group hello_lemmas { xml_log_lemmas, lemma_count_push }

// ---------- shims ----------
pub enum ReadError { UnexpectedXmlEvent(Event), MissingElement, SessionIdParse(ParseIntError), Other }
impl ReadError {
    #[verifier::external_body]
    pub fn missing_element(msg_type: &str, element: &str) -> (r: ReadError) { unimplemented!() }
}
impl From<XmlError> for ReadError { #[verifier::external_body] fn from(e: XmlError) -> (r: ReadError) { unimplemented!() } }
pub mod rpc { pub struct Error { pub x: u8 } }     // (Item::RpcError is unused in this unit)

// Capabilities::read_xml: ASSUMED to consume the <capabilities> subtree (verified for termination in unit a2? no: listed not_verified)
pub struct Capabilities { pub id: u64 }
impl Capabilities {
    #[verifier::external_body]
    pub fn read_xml(reader: &mut NsReader, start: &BytesStart) -> (r: Result<Capabilities, ReadError>)
        ensures final(reader).remaining@.len() <= old(reader).remaining@.len(),
                r is Ok ==> final(reader).log@ == old(reader).log@.push(Item::Data),
                r is Err ==> is_prefix(old(reader).log@, final(reader).log@),
    { unimplemented!() }
}
// NonZeroU32: u32::from_str followed by the non-zero check (std): Ok(n) => 1 <= n <= u32::MAX
pub struct NonZeroU32 { pub n: u32 }
impl CowStr {
    #[verifier::external_body]
    pub fn parse(&self) -> (r: Result<SessionId, ReadError>)
        ensures r matches Ok(sid) ==> sid.0.n != 0
    { unimplemented!() }
}

//@item file=netconf/src/session.rs kind=struct name=SessionId sub=/SessionId(NonZeroU32)=>SessionId(pub NonZeroU32)/
//@item file=netconf/src/message/hello.rs kind=struct name=ServerHello sub=/pub(crate) =>pub ;capabilities:=>pub capabilities:;session_id:=>pub session_id:/

pub mod hello {
use super::*;
broadcast use hello_lemmas;

// C12, server hello: accepted only if well-formed - exactly one <capabilities> and exactly one <session-id>, nothing else -
// and the session-id is a non-zero 32-bit number; the values reported are those of the hello.
pub open spec fn sid_ok(s: Option<SessionId>) -> bool { s matches Some(sid) ==> sid.0.n != 0 }
pub open spec fn server_hello_post(seg: Seq<Item>, res: Result<ServerHello, ReadError>) -> bool {
    res matches Ok(h) ==> count_starts(seg, NameId::Capabilities) == 1 && count_starts(seg, NameId::SessionId) == 1
        && h.session_id.0.n != 0
}
impl ServerHello {
//@extract id=server_hello_read_xml file=netconf/src/message/hello.rs impl=/impl ReadXml for ServerHello/ fn=read_xml rules=R1,R2,R7,R11,R15,R17 r7map=result
//@contract
        ensures
            res is Ok ==> final(reader).remaining@.len() <= old(reader).remaining@.len(),
            res is Ok ==> is_prefix(old(reader).log@, final(reader).log@),
            server_hello_post(seg_of(old(reader).log@, final(reader).log@), res),               // OBL:C12.server_hello.exactly_one_of_each
//@loop 1
            invariant
                is_prefix(old(reader).log@, reader.log@),
                reader.remaining@.len() <= old(reader).remaining@.len(),
                count_starts(seg_of(old(reader).log@, reader.log@), NameId::Capabilities) == (if capabilities is Some { 1nat } else { 0nat }),   // OBL:C12.server_hello.capabilities_once
                count_starts(seg_of(old(reader).log@, reader.log@), NameId::SessionId) == (if session_id is Some { 1nat } else { 0nat }),        // OBL:C12.server_hello.session_id_once
                sid_ok(session_id),                                                                                  // OBL:C12.server_hello.session_id_non_zero
            decreases reader.remaining@.len(),                                                  // OBL:C14.server_hello.terminates
//@end
}
} // mod hello

// ---------- framing link ----------
//@item file=netconf/src/capabilities.rs kind=enum name=Base
pub struct UrlSchemes { pub id: u64 }
pub struct UnknownUri { pub id: u64 }
//@item file=netconf/src/capabilities.rs kind=enum name=Capability sub=/Url(Vec<Box<str>>)=>Url(UrlSchemes);Unknown(Arc<UriStr>)=>Unknown(UnknownUri)/
// RFC 6242 4.1: :base:1.1 on both sides => chunked framing after the hello exchange; otherwise end-of-message framing.
// The transports (unit a1) search for "]]>]]>" only: end-of-message framing is the only framing implemented.
pub open spec fn framing_implemented(v: Base) -> bool { v is V1_0 }
pub struct ClientHello { pub capabilities: Ghost<Set<Capability>> }
impl ClientHello {
    // ClientHello::new: capabilities.iter().cloned().collect()  (iterator chain: ASSUMED to collect the slice into the set)
    #[verifier::external_body]
    pub fn new(capabilities: &[Capability]) -> (r: ClientHello)
        ensures forall|c: Capability| #[trigger] r.capabilities@.contains(c) <==> exists|i: int| 0 <= i < capabilities@.len() && #[trigger] capabilities@[i] == c
    { unimplemented!() }
//@extract id=client_hello_default file=netconf/src/message/hello.rs impl=/impl Default for ClientHello/ fn=default rules=R1
//@+ sub=/const CAPABILITIES: &[Capability]=>let CAPABILITIES: &'static [Capability]/
//@sig pub fn default() -> (res: Self)
//@contract
        // every base version the client offers is one whose framing it can speak, so any negotiated version is usable
        ensures forall|v: Base| res.capabilities@.contains(Capability::Base(v)) ==> framing_implemented(v),   // OBL:C12.client_hello.offers_only_speakable_versions
//@end
}

} // verus!
fn main() {}

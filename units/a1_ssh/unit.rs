// Unit A1-ssh — the SSH pump task of Ssh::connect (C06, C07).
use vstd::prelude::*;
verus! {

//@include units/common_framing.rs

// ---------- spec (from C06): the session layer receives exactly the delimiter-terminated messages, each once, in order
pub open spec fn flatten(q: Seq<Seq<u8>>) -> Seq<u8>
    decreases q.len()
{
    if q.len() == 0 { Seq::<u8>::empty() } else { flatten(q.drop_last()) + q.last() }
}
pub open spec fn is_message(m: Seq<u8>) -> bool { m.len() >= 6 && first_marker(m, m.len() - 6) }
pub open spec fn all_messages(q: Seq<Seq<u8>>) -> bool { forall|i: int| 0 <= i < q.len() ==> is_message(#[trigger] q[i]) }
// queue ++ in_buf is exactly what has been received; every queued element is exactly one message
pub open spec fn delivered_exactly(q0: Seq<Seq<u8>>, q: Seq<Seq<u8>>, in_buf: Seq<u8>, received: Seq<u8>) -> bool {
    &&& q0.len() <= q.len() && q.subrange(0, q0.len() as int) =~= q0
    &&& all_messages(q.subrange(q0.len() as int, q.len() as int))
    &&& flatten(q.subrange(q0.len() as int, q.len() as int)) + in_buf =~= received
}

pub proof fn lemma_flatten_push(q: Seq<Seq<u8>>, m: Seq<u8>)
    ensures flatten(q.push(m)) =~= flatten(q) + m,
{
    assert(q.push(m).drop_last() =~= q);
    assert(q.push(m).last() =~= m);
}
// enqueueing the first message of in_buf keeps `delivered_exactly`
pub proof fn lemma_deliver_step(q0: Seq<Seq<u8>>, q: Seq<Seq<u8>>, b: Seq<u8>, received: Seq<u8>, e: int)
    ensures (delivered_exactly(q0, q, b, received) && 6 <= e <= b.len() && first_marker(b, e - 6))
        ==> delivered_exactly(q0, q.push(b.subrange(0, e)), b.subrange(e, b.len() as int), received),
{
    if delivered_exactly(q0, q, b, received) && 6 <= e <= b.len() && first_marker(b, e - 6) {
        let m = b.subrange(0, e);
        let n = q0.len() as int;
        let q2 = q.push(m);
        let tail = q.subrange(n, q.len() as int);
        assert(q2.subrange(n, q2.len() as int) =~= tail.push(m));
        lemma_flatten_push(tail, m);
        assert(q2.subrange(0, n) =~= q0);
        lemma_marker_prefix(b, e, e - 6);
        assert forall|j: int| 0 <= j < e - 6 implies !marker_at(m, j) by { lemma_marker_prefix(b, e, j); }
        assert(is_message(m));
        assert(m + b.subrange(e, b.len() as int) =~= b);
        assert(flatten(tail.push(m)) + b.subrange(e, b.len() as int) =~= flatten(tail) + b);
    }
}

// ---------- shims: ASSUMED contracts of dependencies ----------
pub struct Error;
pub struct SshError;
pub struct SendError;
impl From<SshError> for Error { #[verifier::external_body] fn from(e: SshError) -> (r: Error) { unimplemented!() } }
impl From<SendError> for Error { #[verifier::external_body] fn from(e: SendError) -> (r: Error) { unimplemented!() } }

pub struct Bytes { pub v: Vec<u8> }
impl View for Bytes { type V = Seq<u8>; closed spec fn view(&self) -> Seq<u8> { self.v@ } }
impl Bytes {
    #[verifier::external_body]
    pub fn as_ref(&self) -> (r: &[u8]) ensures r@ == self@ { unimplemented!() }
    #[verifier::external_body]
    pub fn copy_from_slice(s: &CryptoVec) -> (r: Bytes) ensures r@ == s@ { unimplemented!() }
    #[verifier::external_body]
    pub fn len(&self) -> (n: usize) ensures n == self@.len() { unimplemented!() }
}
pub open spec fn ends_with_spec(s: Seq<u8>, suffix: Seq<u8>) -> bool {
    suffix.len() <= s.len() && s.subrange(s.len() - suffix.len(), s.len() as int) == suffix
}
impl CryptoVec {
    #[verifier::external_body]
    pub fn ends_with(&self, suffix: &[u8]) -> (r: bool) ensures r == ends_with_spec(self@, suffix@) { unimplemented!() }
    #[verifier::external_body]
    pub fn len(&self) -> (n: usize) ensures n == self@.len() { unimplemented!() }
    #[verifier::external_body]
    pub fn is_empty(&self) -> (r: bool) ensures r == (self@.len() == 0) { unimplemented!() }
}
pub struct CryptoVec { pub v: Vec<u8> }
impl View for CryptoVec { type V = Seq<u8>; closed spec fn view(&self) -> Seq<u8> { self.v@ } }
pub struct BytesMut { pub v: Vec<u8> }
impl View for BytesMut { type V = Seq<u8>; closed spec fn view(&self) -> Seq<u8> { self.v@ } }
impl BytesMut {
    #[verifier::external_body]
    pub fn new() -> (r: BytesMut) ensures r@ == Seq::<u8>::empty() { unimplemented!() }
    // in_buf.extend_from_slice(&data): `&CryptoVec` derefs to &[u8]
    #[verifier::external_body]
    pub fn extend_from_slice(&mut self, s: &CryptoVec)
        ensures final(self)@ == old(self)@ + s@, final(self)@.len() < usize::MAX - 6   // platform: allocation < isize::MAX
    { unimplemented!() }
    #[verifier::external_body]
    pub fn split_to(&mut self, at: usize) -> (r: BytesMut)
        requires at <= old(self)@.len()                                              // OBL:shim.split_to.in_bounds
        ensures r@ == old(self)@.subrange(0, at as int), final(self)@ == old(self)@.subrange(at as int, old(self)@.len() as int)
    { unimplemented!() }
    #[verifier::external_body]
    pub fn freeze(self) -> (r: Bytes) ensures r@ == self@ { unimplemented!() }
    #[verifier::external_body]
    pub fn len(&self) -> (n: usize) ensures n == self@.len() { unimplemented!() }
    #[verifier::external_body]
    pub fn is_empty(&self) -> (r: bool) ensures r == (self@.len() == 0) { unimplemented!() }
    #[verifier::external_body]
    pub fn clear(&mut self) ensures final(self)@ == Seq::<u8>::empty() { unimplemented!() }
    #[verifier::external_body]
    pub fn split(&mut self) -> (r: BytesMut) ensures r@ == old(self)@, final(self)@ == Seq::<u8>::empty() { unimplemented!() }
}
// memchr::memmem::Finder::new(needle).find(hay): first occurrence or None iff none; `&BytesMut` derefs to &[u8]
pub struct Finder;
impl Finder {
    #[verifier::external_body]
    pub fn new(needle: &[u8]) -> (r: Finder)
        requires needle@ == marker()                                                 // OBL:C06.ssh.searches_for_the_delimiter
    { unimplemented!() }
    #[verifier::external_body]
    pub fn find(&self, hay: &BytesMut) -> (r: Option<usize>)
        ensures match r { Some(i) => first_marker(hay@, i as int), None => !has_marker(hay@) }
    { unimplemented!() }
}
// (russh::ChannelMsg has more variants; the ones a pump loop plausibly names are listed, `Other` stands for the rest)
pub enum ChannelMsg { Data { data: CryptoVec }, Eof, Close, Success, Failure, WindowAdjusted { new_size: u32 }, Other }
// russh::Channel: `budget` = number of channel messages the peer/session will still deliver (ghost, arbitrary);
// wait() == None  <=>  the channel is closed (tokio mpsc recv on a closed channel: None now and forever).
pub struct Channel { pub received: Ghost<Seq<u8>>, pub budget: Ghost<nat>, pub closed: Ghost<bool>, pub eof_seen: Ghost<bool> }
impl Channel {
    #[verifier::external_body]
    pub fn wait(&mut self) -> (r: Option<ChannelMsg>)
        // after CHANNEL_EOF the peer sends nothing more, and a half-closing peer never closes: waiting again may block forever
        requires !old(self).eof_seen@,                                                        // OBL:C07.ssh.no_wait_after_eof
        ensures final(self).eof_seen@ == (old(self).eof_seen@ || r matches Some(ChannelMsg::Eof)), match r {
            Some(ChannelMsg::Data { data }) => final(self).received@ == old(self).received@ + data@ && old(self).budget@ > 0 && final(self).budget@ == old(self).budget@ - 1 && final(self).closed@ == old(self).closed@ && !old(self).closed@,
            Some(_) => final(self).received@ == old(self).received@ && old(self).budget@ > 0 && final(self).budget@ == old(self).budget@ - 1 && final(self).closed@ == old(self).closed@ && !old(self).closed@,
            None => final(self).received@ == old(self).received@ && final(self).budget@ == old(self).budget@ && final(self).closed@,
        }
    { unimplemented!() }
    #[verifier::external_body]
    pub fn data(&mut self, d: &[u8]) -> (r: Result<(), SshError>)
        ensures final(self).received@ == old(self).received@, final(self).budget@ == old(self).budget@, final(self).closed@ == old(self).closed@, final(self).eof_seen@ == old(self).eof_seen@
    { unimplemented!() }
    #[verifier::external_body]
    pub fn eof(&mut self) -> (r: Result<(), SshError>)
        ensures final(self).received@ == old(self).received@, final(self).budget@ == old(self).budget@, final(self).closed@ == old(self).closed@, final(self).eof_seen@ == old(self).eof_seen@
    { unimplemented!() }
    #[verifier::external_body]
    pub fn close(&mut self) -> (r: Result<(), SshError>)
        ensures final(self).received@ == old(self).received@, final(self).budget@ == old(self).budget@, final(self).eof_seen@ == old(self).eof_seen@
    { unimplemented!() }
}
// tokio::sync::mpsc::Receiver<Bytes> (outgoing queue): `budget` = messages local senders will still enqueue
pub struct OutRx { pub budget: Ghost<nat> }
impl OutRx {
    #[verifier::external_body]
    pub fn recv(&mut self) -> (r: Option<Bytes>)
        ensures match r { Some(_) => old(self).budget@ > 0 && final(self).budget@ == old(self).budget@ - 1, None => final(self).budget@ == old(self).budget@ }
    { unimplemented!() }
}
// tokio::sync::mpsc::Sender<Bytes> (incoming queue towards the session layer); `queue` = everything enqueued so far.
// (tokio's send takes &self; modelled as &mut self to carry the ghost queue.)
pub struct InTx { pub queue: Ghost<Seq<Seq<u8>>> }
impl InTx {
    #[verifier::external_body]
    pub fn send(&mut self, m: Bytes) -> (r: Result<(), SendError>)
        ensures match r { Ok(_) => final(self).queue@ == old(self).queue@.push(m@), Err(_) => final(self).queue@ == old(self).queue@ }
    { unimplemented!() }
}
// R4: tokio::select! picks any ready branch
#[verifier::external_body]
pub fn nondet_choice(n: u8) -> (r: u8) ensures r < n { unimplemented!() }
#[verifier::external_body]
pub fn nondet_unreachable() requires false { unimplemented!() }

//@item file=netconf/src/message/mod.rs kind=const name=MARKER call=1

//@extract id=ssh_pump file=netconf/src/transport/ssh.rs impl=/impl Ssh/ fn=connect block=/tokio::spawn\(async move / rules=R2,R3,R4,R14,R17 consts=MARKER
//@sig pub fn ssh_pump(mut out_queue_rx: OutRx, channel: &mut Channel, in_queue_tx: &mut InTx) -> (res: Result<(), Error>)
//@local in_buf /let mut (\w+) = BytesMut::new\(\)/
//@local message_break /let (\w+) = Finder::new\(/
//@contract
    requires old(channel).received@ == Seq::<u8>::empty(), !old(channel).eof_seen@,
    ensures
        // C06 (SSH): whenever the pump stops without a queue/transport error, the session layer has been handed exactly
        // the delimiter-terminated messages of the received byte stream, each once, complete and in order, and no
        // complete message is left undelivered in the pump's buffer (`rest` has no delimiter).
        res is Ok ==> exists|rest: Seq<u8>| #[trigger] delivered_exactly(old(in_queue_tx).queue@, final(in_queue_tx).queue@, rest, final(channel).received@) && !has_marker(rest),  // OBL:C06.ssh.delivered_exactly_at_exit
//@loop 1
        invariant_except_break
            !channel.eof_seen@,                                                           // OBL:C07.ssh.leaves_loop_on_eof
        invariant
            delivered_exactly(old_q, in_queue_tx.queue@, in_buf@, channel.received@),      // OBL:C06.ssh.delivered_exactly
            !has_marker(in_buf@),                                                         // OBL:C06.ssh.no_complete_message_left_in_buffer
            in_buf@.len() < usize::MAX - 6,
        decreases channel.budget@ + out_queue_rx.budget@,                                 // OBL:C07.ssh.progress_or_exit
//@loop 2 optional
        invariant
            delivered_exactly(old_q, in_queue_tx.queue@, in_buf@, channel.received@),      // OBL:C06.ssh.delivered_exactly_inner
            in_buf@.len() < usize::MAX - 6,
        ensures
            !has_marker(in_buf@),                                                         // OBL:C06.ssh.all_complete_messages_delivered
        decreases in_buf@.len(),                                                          // OBL:C07.ssh.inner_progress
//@before /let mut in_buf = BytesMut::new/
    let ghost old_q = in_queue_tx.queue@;
    proof { assert(old_q.subrange(old_q.len() as int, old_q.len() as int) =~= Seq::<Seq<u8>>::empty()); }
//@before /in_buf\.extend_from_slice/
    let ghost b_before = in_buf@;
//@before /let message = in_buf\.split_to/
    proof { lemma_deliver_step(old_q, in_queue_tx.queue@, in_buf@, channel.received@, end as int); }
//@end

} // verus!
fn main() {}

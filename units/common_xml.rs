// Shared prelude: ASSUMED contract of quick-xml's namespace-resolving pull reader, as an event source.
// `remaining` = the events the tokenizer will still yield for this document (ghost, arbitrary);
// `log`       = what the readers have consumed so far, as depth-local items: every event handed out by
//               read_resolved_event(), and one summarising item for every sub-element parsed by a callee.
#[derive(PartialEq, Eq, Structural)]
pub struct Namespace { pub id: u8 }
pub mod xmlns {
    use super::*;
    // urn:ietf:params:xml:ns:netconf:base:1.0 (abstracted to an identifier)
    pub const BASE: Namespace = Namespace { id: 1 };
}
pub enum ResolveResult { Bound(Namespace), Unbound, Unknown }
pub struct LocalName { pub v: Vec<u8> }
impl View for LocalName { type V = Seq<u8>; open spec fn view(&self) -> Seq<u8> { self.v@ } }
impl LocalName {
    #[verifier::external_body]
    pub fn as_ref(&self) -> (r: &[u8]) ensures r@ == self@ { unimplemented!() }
}
pub struct QName { pub qid: u64 }
pub struct BytesStart { pub lname: Vec<u8>, pub qid: u64 }
impl BytesStart {
    #[verifier::external_body]
    pub fn local_name(&self) -> (r: LocalName) ensures r@ == self.lname@ { unimplemented!() }
    #[verifier::external_body]
    pub fn name(&self) -> (r: QName) ensures r.qid == self.qid { unimplemented!() }
    // the end tag matching this start tag (same qualified name)
    #[verifier::external_body]
    pub fn to_end(&self) -> (r: BytesEnd) ensures r.qid == self.qid { unimplemented!() }
}
#[derive(PartialEq, Eq, Structural)]
pub struct BytesEnd { pub qid: u64 }
impl BytesEnd {
    #[verifier::external_body]
    pub fn name(&self) -> (r: QName) ensures r.qid == self.qid { unimplemented!() }
}
pub struct BytesText { pub v: Vec<u8> }
pub enum Event {
    Start(BytesStart), End(BytesEnd), Empty(BytesStart), Text(BytesText), Comment(BytesText),
    CData(BytesText), Decl(BytesText), PI(BytesText), DocType(BytesText), Eof,
}
impl Event {
    #[verifier::external_body]
    pub fn into_owned(self) -> (r: Event) ensures r == self { unimplemented!() }
}
pub struct XmlError;

pub ghost enum Item {
    Ev(ResolveResult, Event),       // an event handed to the reader under contract
    RpcError(rpc::Error),           // an <rpc-error> subtree, parsed by rpc::Error::read_xml to this value
    Data,                           // a payload subtree parsed by D::read_xml
    TextOf(Seq<u8>),                // the text content of a leaf element consumed by read_text()
    ReadFailed,                     // read_resolved_event() / read_text() reported a syntax error
    SkipFailed,                     // read_to_end() reported an error while skipping an element's content
}

pub struct NsReader { pub remaining: Ghost<Seq<(ResolveResult, Event)>>, pub log: Ghost<Seq<Item>> }
impl NsReader {
    // NsReader::read_resolved_event: the next event, Eof (forever) at the end of the document, or a syntax error
    #[verifier::external_body]
    pub fn read_resolved_event(&mut self) -> (r: Result<(ResolveResult, Event), XmlError>)
        ensures match r {
            Ok(p) => if old(self).remaining@.len() == 0 {
                    p.1 is Eof && final(self).remaining@ == old(self).remaining@ && final(self).log@ == old(self).log@.push(Item::Ev(p.0, p.1))
                } else {
                    p == old(self).remaining@[0] && final(self).remaining@ == old(self).remaining@.skip(1)
                    && final(self).remaining@.len() == old(self).remaining@.len() - 1
                    && final(self).log@ == old(self).log@.push(Item::Ev(p.0, p.1))
                },
            Err(e) => final(self).remaining@.len() <= old(self).remaining@.len() && final(self).log@ == old(self).log@.push(Item::ReadFailed),
        }
    { unimplemented!() }
}

pub open spec fn is_prefix(a: Seq<Item>, b: Seq<Item>) -> bool { a.len() <= b.len() && b.subrange(0, a.len() as int) =~= a }
// the items consumed since the log was `l0`
pub open spec fn seg_of(l0: Seq<Item>, l: Seq<Item>) -> Seq<Item> { l.subrange(l0.len() as int, l.len() as int) }

pub broadcast proof fn lemma_prefix_push(l0: Seq<Item>, l: Seq<Item>, it: Item)
    requires is_prefix(l0, l),
    ensures #[trigger] is_prefix(l0, l.push(it)),
{
}
pub broadcast proof fn lemma_seg_push(l0: Seq<Item>, l: Seq<Item>, it: Item)
    requires is_prefix(l0, l),
    ensures #[trigger] seg_of(l0, l.push(it)) == seg_of(l0, l).push(it),
{
    assert(seg_of(l0, l.push(it)) =~= seg_of(l0, l).push(it));
}
pub broadcast proof fn lemma_prefix_refl(l0: Seq<Item>)
    ensures #[trigger] is_prefix(l0, l0),
{
}
pub broadcast proof fn lemma_seg_refl(l0: Seq<Item>)
    ensures #[trigger] seg_of(l0, l0) == Seq::<Item>::empty(),
{
    assert(seg_of(l0, l0) =~= Seq::<Item>::empty());
}
pub broadcast proof fn lemma_prefix_trans(a: Seq<Item>, b: Seq<Item>, c: Seq<Item>)
    requires #[trigger] is_prefix(a, b), #[trigger] is_prefix(b, c),
    ensures is_prefix(a, c),
{
    assert(c.subrange(0, a.len() as int) =~= b.subrange(0, a.len() as int));
}
pub broadcast group xml_log_lemmas { lemma_prefix_push, lemma_seg_push, lemma_prefix_refl, lemma_seg_refl }

// R11: `E == b"lit"` on byte slices: std PartialEq for slices = same length and elementwise equal
#[verifier::external_body]
pub fn bytes_eq(a: &[u8], b: &[u8]) -> (r: bool) ensures r == (a@ == b@) { unimplemented!() }

// reader.read_text(end): the text content of a leaf element (ASSUMED: consumes events, records one TextOf item)
pub struct CowStr { pub v: Vec<u8> }
impl PartialEq for CowStr { #[verifier::external_body] fn eq(&self, other: &Self) -> (r: bool) { unimplemented!() } }
pub struct ParseIntError;
impl NsReader {
    #[verifier::external_body]
    pub fn read_text(&mut self, end: QName) -> (r: Result<CowStr, XmlError>)
        ensures
            final(self).remaining@.len() <= old(self).remaining@.len(),
            r is Ok ==> final(self).log@ == old(self).log@.push(Item::TextOf(r->Ok_0.v@)),
            r is Err ==> final(self).log@ == old(self).log@.push(Item::ReadFailed),
    { unimplemented!() }
}

// reader.read_to_end(end): skips events up to the matching end tag (ASSUMED: consumes some prefix of the remaining
// events; every skipped event is recorded in the log like an event handed to the caller, so "nothing was skipped" claims
// cannot be established across it)
pub struct Span;
pub open spec fn evs_items(evs: Seq<(ResolveResult, Event)>) -> Seq<Item> { Seq::new(evs.len(), |i: int| Item::Ev(evs[i].0, evs[i].1)) }
impl NsReader {
    #[verifier::external_body]
    pub fn read_to_end(&mut self, end: QName) -> (r: Result<Span, XmlError>)
        ensures
            final(self).remaining@.len() <= old(self).remaining@.len(),
            r is Ok ==> exists|k: int| 0 <= k <= old(self).remaining@.len() && final(self).remaining@ == #[trigger] old(self).remaining@.skip(k)
                && final(self).log@ == old(self).log@ + evs_items(old(self).remaining@.take(k)),
            r is Err ==> final(self).log@ == old(self).log@.push(Item::SkipFailed),
    { unimplemented!() }
}

// Unit A7 — daemon back-off arithmetic: the two arms after a run in Loop::start (C19).
use vstd::prelude::*;
use vstd::std_specs::ops::MulSpecImpl;
verus! {

// ---------- shims ----------
// std::time::Duration, whole seconds only (the code only uses from_secs / as_secs / `* 2` / min)
#[derive(Clone, Copy)]
pub struct Duration { pub secs: u64 }
// comparisons between Durations (std PartialOrd): no spec is given here - code that branches on one is verified for both outcomes
impl PartialEq for Duration { #[verifier::external_body] fn eq(&self, other: &Self) -> (r: bool) { unimplemented!() } }
impl PartialOrd for Duration { #[verifier::external_body] fn partial_cmp(&self, other: &Self) -> (r: Option<core::cmp::Ordering>) { unimplemented!() } }
impl Duration {
    pub const fn from_secs(secs: u64) -> (r: Duration) ensures r.secs == secs { Duration { secs } }
    pub fn as_secs(&self) -> (r: u64) ensures r == self.secs { self.secs }
}
// Duration * u32 panics on overflow
impl MulSpecImpl<u32> for Duration {
    open spec fn obeys_mul_spec() -> bool { true }
    open spec fn mul_req(self, rhs: u32) -> bool { self.secs * rhs <= u64::MAX }        // OBL:C19.backoff.no_overflow_panic
    open spec fn mul_spec(self, rhs: u32) -> Duration { Duration { secs: (self.secs * rhs) as u64 } }
}
impl core::ops::Mul<u32> for Duration {
    type Output = Duration;
    #[verifier::external_body]
    fn mul(self, rhs: u32) -> Duration { unimplemented!() }
}
// std::cmp::{min, max} on Duration
pub fn min(a: Duration, b: Duration) -> (r: Duration) ensures r == (if a.secs <= b.secs { a } else { b }) { if a.secs <= b.secs { a } else { b } }
pub fn max(a: Duration, b: Duration) -> (r: Duration) ensures r == (if a.secs >= b.secs { a } else { b }) { if a.secs >= b.secs { a } else { b } }
// tokio::time::Interval: `next_delay` = time from now until the next tick (ghost); reset() = one period, reset_after(d) = d
pub struct Interval { pub period: Ghost<u64>, pub next_delay: Ghost<u64> }
impl Interval {
    #[verifier::external_body]
    pub fn reset(&mut self) ensures final(self).period@ == old(self).period@, final(self).next_delay@ == old(self).period@ { unimplemented!() }
    #[verifier::external_body]
    pub fn reset_after(&mut self, after: Duration) ensures final(self).period@ == old(self).period@, final(self).next_delay@ == after.secs { unimplemented!() }
}
impl Interval {
    #[verifier::external_body]
    pub fn reset_immediately(&mut self) ensures final(self).period@ == old(self).period@, final(self).next_delay@ == 0 { unimplemented!() }
}
pub mod time {
    use super::*;
    // tokio::time::sleep outside of select!: the daemon is deaf to signals meanwhile (not modelled as a delay of the next run)
    #[verifier::external_body]
    pub fn sleep(d: Duration) { unimplemented!() }
}
pub struct AnyhowError;
pub struct Loop { pub period: Duration }

//@item file=junos-agent/src/task.rs kind=const name=MIN_BACKOFF ensures=/MIN_BACKOFF.secs == 60/ label=C19.backoff.starts_at_one_minute

pub open spec fn cap(period: u64) -> u64 { if period >= 60 { period } else { 60 } }   // "the larger of one minute and the configured period"

impl Loop {
//@extract id=loop_after_run file=junos-agent/src/task.rs impl=/Loop<T>/ fn=start expr=/match handle_task\(tokio::spawn\(job\)\)\.await/ rules=R2,R3,R17
//@+ sub=/handle_task(tokio::spawn(job)).await=>outcome/ post=/backoff/
//@sig pub fn after_run(&self, outcome: Result<(), AnyhowError>, interval: &mut Interval, mut backoff: Duration) -> (res: Duration)
//@contract
        requires
            old(interval).period@ == self.period.secs,
            1 <= self.period.secs <= u64::MAX / 2,          // frequency is NonZeroU64; a period above 2^63 s is excluded (assumption)
            // state invariant of the back-off value
            1 <= backoff.secs <= cap(self.period.secs),
        ensures
            final(interval).period@ == old(interval).period@,
            1 <= res.secs <= cap(self.period.secs),                                                     // OBL:C19.backoff.invariant_preserved
            // a successful run restores the normal period and the initial back-off of one minute
            outcome is Ok ==> final(interval).next_delay@ == self.period.secs && res.secs == 60,       // OBL:C19.backoff.success_restores_period
            // a failed run is retried after the current back-off: never without delay,
            // never more than the larger of one minute and the period
            outcome is Err ==> final(interval).next_delay@ == backoff.secs,                              // OBL:C19.backoff.retry_after_backoff
            outcome is Err ==> 1 <= final(interval).next_delay@ <= cap(self.period.secs),             // OBL:C19.backoff.delay_bounded
            // ... and the back-off grows with each consecutive failure until it reaches that bound
            outcome is Err ==> res.secs >= backoff.secs,                                                // OBL:C19.backoff.grows
            outcome is Err && backoff.secs < cap(self.period.secs) ==> res.secs > backoff.secs,        // OBL:C19.backoff.grows_strictly_below_cap
//@end
}

// ---------- the signal arms of the select loop ----------
impl Loop {
//@extract id=loop_on_sighup file=junos-agent/src/task.rs impl=/Loop<T>/ fn=start block=/_ = sighup\.recv\(\) =>/ rules=R2,R3,R17 contret=1
//@sig pub fn on_sighup(&self, mut interval: &mut Interval, backoff: Duration)
//@contract
        // C19: SIGHUP triggers an immediate run - whatever state the back-off is in
        ensures final(interval).next_delay@ == 0, final(interval).period@ == old(interval).period@,     // OBL:C19.sighup.triggers_an_immediate_run
//@end
//@extract id=loop_on_sigint file=junos-agent/src/task.rs impl=/Loop<T>/ fn=start block=/_ = sigint\.recv\(\) =>/ rules=R2,R3,R17 contret=1
//@+ sub=/break Ok(())=>return Ok(())/
//@sig pub fn on_sigint(&self, interval: &mut Interval, backoff: Duration) -> (res: Result<(), AnyhowError>)
//@contract
        // C19: SIGINT makes the daemon exit cleanly
        ensures res is Ok,                                                                              // OBL:C19.sigint.clean_exit
//@end
//@extract id=loop_on_sigterm file=junos-agent/src/task.rs impl=/Loop<T>/ fn=start block=/_ = sigterm\.recv\(\) =>/ rules=R2,R3,R17 contret=1
//@+ sub=/break Ok(())=>return Ok(())/
//@sig pub fn on_sigterm(&self, interval: &mut Interval, backoff: Duration) -> (res: Result<(), AnyhowError>)
//@contract
        ensures res is Ok,                                                                              // OBL:C19.sigterm.clean_exit
//@end
}

// ---------- handle_task: how a run's task outcome becomes the `outcome` of the back-off arms above ----------
// The daemon spawns each run as a task and awaits it through handle_task; "a failed run is retried" covers every way the
// task can end badly: an Err value, a panic inside the run (tokio turns it into a JoinError), a cancelled task.  All of them
// must come back as Err - a panic re-raised here would unwind through Loop::start and end the daemon instead of retrying.
pub mod task_outcome {
use vstd::prelude::*;
pub struct AnyErr;
pub enum JoinErrorKind { Panic, Cancelled }
pub struct JoinError { pub kind: JoinErrorKind }
pub struct PanicPayload;
impl JoinError {
    #[verifier::external_body] pub fn is_panic(&self) -> (r: bool) ensures r == (self.kind is Panic) { unimplemented!() }
    #[verifier::external_body] pub fn is_cancelled(&self) -> (r: bool) ensures r == (self.kind is Cancelled) { unimplemented!() }
    #[verifier::external_body] pub fn into_panic(self) -> (r: PanicPayload) requires self.kind is Panic { unimplemented!() }
}
// std::panic::resume_unwind / panic_any: continue unwinding with a task's panic payload - never returns
#[verifier::external_body]
pub fn resume_unwind_<T>(payload: PanicPayload) -> (r: T)
    requires false                                                                                       // OBL:C19.handle_task.task_panic_is_not_re_raised_in_the_daemon
    ensures false   // diverges: nothing after the call is reachable
{ unimplemented!() }
// how the spawned run ended: its value, or the JoinError tokio reports for a panicked / cancelled task
pub struct JoinHandle<T> { pub out: Result<T, JoinError> }
impl<T> JoinHandle<T> {
    pub fn await_(self) -> (r: Result<T, JoinError>) ensures r == self.out { self.out }
}
pub trait Ctx<T> { fn context(self, msg: &str) -> (r: Result<T, AnyErr>); }
impl<T> Ctx<T> for Result<T, AnyErr> {
    #[verifier::external_body]
    fn context(self, msg: &str) -> (r: Result<T, AnyErr>) ensures match self { Ok(v) => r == Ok::<T, AnyErr>(v), Err(_) => r is Err } { unimplemented!() }
}
impl<T> Ctx<T> for Result<T, JoinError> {
    #[verifier::external_body]
    fn context(self, msg: &str) -> (r: Result<T, AnyErr>) ensures match self { Ok(v) => r == Ok::<T, AnyErr>(v), Err(_) => r is Err } { unimplemented!() }
}
//@extract id=handle_task_outcome file=junos-agent/src/task.rs fn=handle_task rules=R1,R2,R3 awaitcall=1
//@+ optsub=/std::panic::resume_unwind(=>resume_unwind_(;;panic::resume_unwind(=>resume_unwind_(/
//@sig pub fn handle_task<T>(handle: JoinHandle<Result<T, AnyErr>>) -> (res: Result<T, AnyErr>)
//@contract
        // total: returns for every way the task can end (no precondition; a reachable panic fails the proof) ...
        ensures
            // ... a run counts as successful only if its task ran to completion and returned Ok
            res matches Ok(v) ==> handle.out == Ok::<Result<T, AnyErr>, JoinError>(Ok(v)),                 // OBL:C19.handle_task.success_only_for_a_completed_ok_run
            // ... and a task that returned Err, panicked or was cancelled is a failed run (which the loop retries)
            !(handle.out matches Ok(Ok(_))) ==> res is Err,                                              // OBL:C19.handle_task.failed_panicked_or_cancelled_run_is_err
            handle.out matches Ok(Ok(v)) ==> res == Ok::<T, AnyErr>(v),                                    // OBL:C19.handle_task.ok_run_is_ok
//@end
} // mod task_outcome

// ---------- cli.rs: `--frequency 0` selects one-shot mode, any other value is the daemon's period ----------
pub struct NonZeroU64 { pub n: u64 }
pub struct TryFromIntError;
pub struct AnyErr;
pub struct ParseIntError;
// u64::try_into::<NonZeroU64>()
#[verifier::external_body]
pub fn u64_try_into_nonzero(v: u64) -> (r: Result<NonZeroU64, TryFromIntError>) ensures match r { Ok(nz) => v != 0 && nz.n == v, Err(_) => v == 0 } { unimplemented!() }
pub trait ParseU64 { fn parse_u64(&self) -> (r: Result<u64, ParseIntError>); }
pub uninterp spec fn parsed_u64(s: Seq<char>) -> Option<u64>;
impl ParseU64 for str {
    #[verifier::external_body]
    fn parse_u64(&self) -> (r: Result<u64, ParseIntError>) ensures match r { Ok(v) => parsed_u64(self@) == Some(v), Err(_) => parsed_u64(self@) is None } { unimplemented!() }
}
pub trait CtxU64 { fn context(self, msg: &str) -> (r: Result<u64, AnyErr>); }
impl CtxU64 for Result<u64, ParseIntError> {
    #[verifier::external_body]
    fn context(self, msg: &str) -> (r: Result<u64, AnyErr>) ensures match self { Ok(v) => r == Ok::<u64, AnyErr>(v), Err(_) => r is Err } { unimplemented!() }
}
//@item file=junos-agent/src/cli.rs kind=enum name=Frequency sub=/enum Frequency=>pub enum Frequency/
pub open spec fn frequency_of(v: u64) -> Frequency { if v == 0 { Frequency::OneShot } else { Frequency::Daemon(NonZeroU64 { n: v }) } }
impl Frequency {
//@extract id=frequency_from_u64 file=junos-agent/src/cli.rs impl=/impl From<u64> for Frequency/ fn=from rules=R1,R7 r7mapor=result
//@+ sub=/freq.try_into()=>u64_try_into_nonzero(freq)/
//@sig pub fn from(freq: u64) -> (res: Self)
//@contract
        ensures res == frequency_of(freq),                                                    // OBL:C19.cli.zero_selects_one_shot
//@end
//@extract id=frequency_from_str file=junos-agent/src/cli.rs impl=/impl FromStr for Frequency/ fn=from_str rules=R1,R7 r7pathmap=result
//@+ sub=/s.parse::<u64>()=>s.parse_u64()/
//@sig pub fn from_str(s: &str) -> (res: Result<Self, AnyErr>)
//@contract
        // the period given on the command line is used as given (0 = one-shot); nothing is clamped or rewritten
        ensures match parsed_u64(s@) { Some(v) => res == Ok::<Frequency, AnyErr>(frequency_of(v)), None => res is Err },   // OBL:C19.cli.frequency_used_as_given
//@end
}

} // verus!
fn main() {}

// Unit A2 — reply readers (C08; C14 side obligations: termination, no panic, Ok-or-Err for every event sequence).
use vstd::prelude::*;
use vstd::std_specs::convert::FromSpecImpl;
verus! {

//@include units/common_xml.rs


//@bytelits ok=NameId::Ok rpc-error=NameId::RpcError data=NameId::Data load-configuration-results=NameId::Results load-error-count=NameId::LoadErrorCount

// ---------- spec (from C08) ----------
// element names the property talks about (RFC 6241 / Junos reply grammar), as an enumeration of byte strings
pub enum NameId { Ok, RpcError, Data, Results, LoadErrorCount, Other }
#[verifier::opaque]
pub open spec fn name_id(s: Seq<u8>) -> NameId {
    if s =~= seq![111u8, 107] { NameId::Ok }                                                    // "ok"
    else if s =~= seq![114u8, 112, 99, 45, 101, 114, 114, 111, 114] { NameId::RpcError }        // "rpc-error"
    else if s =~= seq![100u8, 97, 116, 97] { NameId::Data }                                     // "data"
    else if s =~= seq![108u8, 111, 97, 100, 45, 99, 111, 110, 102, 105, 103, 117, 114, 97, 116, 105, 111, 110, 45, 114, 101, 115, 117, 108, 116, 115] { NameId::Results }  // "load-configuration-results"
    else if s =~= seq![108u8, 111, 97, 100, 45, 101, 114, 114, 111, 114, 45, 99, 111, 117, 110, 116] { NameId::LoadErrorCount }  // "load-error-count"
    else { NameId::Other }
}
pub open spec fn name_rpc_error() -> NameId { NameId::RpcError }
pub open spec fn name_ok() -> NameId { NameId::Ok }
pub open spec fn name_data() -> NameId { NameId::Data }
pub open spec fn name_results() -> NameId { NameId::Results }
pub open spec fn is_start_of(it: Item, name: NameId) -> bool {
    it matches Item::Ev(ResolveResult::Bound(ns), Event::Start(tag)) && ns == xmlns::BASE && name_id(tag.lname@) == name
}
pub open spec fn is_empty_of(it: Item, name: NameId) -> bool {
    it matches Item::Ev(ResolveResult::Bound(ns), Event::Empty(tag)) && ns == xmlns::BASE && name_id(tag.lname@) == name
}
// the rpc-errors of the consumed part of a reply, in document order
pub open spec fn errors_of(s: Seq<Item>) -> Seq<rpc::Error>
    decreases s.len()
{
    if s.len() == 0 { Seq::<rpc::Error>::empty() } else {
        match s.last() { Item::RpcError(e) => errors_of(s.drop_last()).push(e), _ => errors_of(s.drop_last()) }
    }
}
// every <rpc-error> element the reader has passed over was parsed into the error list (none skipped)
pub open spec fn all_parsed(s: Seq<Item>) -> bool {
    forall|i: int| 0 <= i < s.len() && is_start_of(#[trigger] s[i], name_rpc_error()) ==> i + 1 < s.len() && s[i + 1] is RpcError
}
pub open spec fn has_item(s: Seq<Item>, f: spec_fn(Item) -> bool) -> bool { exists|i: int| 0 <= i < s.len() && f(#[trigger] s[i]) }
pub open spec fn has_ok(s: Seq<Item>) -> bool { exists|i: int| 0 <= i < s.len() && is_empty_of(#[trigger] s[i], name_ok()) }
pub open spec fn has_data(s: Seq<Item>) -> bool { exists|i: int| 0 <= i < s.len() && (#[trigger] s[i]) is Data }
pub open spec fn has_severity_error(errs: Seq<rpc::Error>) -> bool {
    exists|i: int| 0 <= i < errs.len() && (#[trigger] errs[i]).severity == rpc::Severity::Error
}
// C08, as a predicate on (what the reply contained, what the library reported):
//  * success is reported only if the reply carried the positive indication and no rpc-error of severity error
//  * reported server errors are exactly the reply's errors, in order
pub open spec fn c08<T>(seg: Seq<Item>, positive: bool, r: Result<T, Error>) -> bool {
    &&& r is Ok ==> (positive && all_parsed(seg) && !has_severity_error(errors_of(seg)))
    &&& (r matches Err(Error::RpcError(l)) ==> l@ =~= errors_of(seg) && all_parsed(seg))
}

pub broadcast proof fn lemma_errors_of_push(s: Seq<Item>, it: Item)
    ensures #[trigger] errors_of(s.push(it)) == (match it { Item::RpcError(e) => errors_of(s).push(e), _ => errors_of(s) }),
{
    assert(s.push(it).drop_last() =~= s);
}
pub broadcast proof fn lemma_all_parsed_push_plain(s: Seq<Item>, it: Item)
    requires all_parsed(s), !is_start_of(it, name_rpc_error()),
    ensures #[trigger] all_parsed(s.push(it)),
{
}
pub broadcast proof fn lemma_all_parsed_push_error(s: Seq<Item>, a: Item, e: rpc::Error)
    requires all_parsed(s),
    ensures #[trigger] all_parsed(s.push(a).push(Item::RpcError(e))),
{
}
pub broadcast proof fn lemma_has_ok_push(s: Seq<Item>, it: Item)
    ensures #[trigger] has_ok(s.push(it)) == (has_ok(s) || is_empty_of(it, name_ok())),
{
    if has_ok(s) {
        let i = choose|i: int| 0 <= i < s.len() && is_empty_of(#[trigger] s[i], name_ok());
        assert(s.push(it)[i] == s[i]);
    }
    if is_empty_of(it, name_ok()) { assert(s.push(it)[s.len() as int] == it); }
    if has_ok(s.push(it)) {
        let i = choose|i: int| 0 <= i < s.push(it).len() && is_empty_of(#[trigger] s.push(it)[i], name_ok());
        if i < s.len() { assert(s.push(it)[i] == s[i]); }
    }
}
pub broadcast proof fn lemma_has_data_push(s: Seq<Item>, it: Item)
    ensures #[trigger] has_data(s.push(it)) == (has_data(s) || it is Data),
{
    if has_data(s) {
        let i = choose|i: int| 0 <= i < s.len() && (#[trigger] s[i]) is Data;
        assert(s.push(it)[i] == s[i]);
    }
    if it is Data { assert(s.push(it)[s.len() as int] == it); }
    if has_data(s.push(it)) {
        let i = choose|i: int| 0 <= i < s.push(it).len() && (#[trigger] s.push(it)[i]) is Data;
        if i < s.len() { assert(s.push(it)[i] == s[i]); }
    }
}

pub open spec fn has_results(s: Seq<Item>) -> bool { exists|i: int| 0 <= i < s.len() && is_start_of(#[trigger] s[i], name_results()) }
// an <ok/> inside <load-configuration-results>
pub open spec fn has_ok_in_results(s: Seq<Item>) -> bool {
    exists|i: int, j: int| 0 <= i < j < s.len() && is_start_of(#[trigger] s[i], name_results()) && is_empty_of(#[trigger] s[j], name_ok())
}
pub broadcast proof fn lemma_has_results_push(s: Seq<Item>, it: Item)
    ensures #[trigger] has_results(s.push(it)) == (has_results(s) || is_start_of(it, name_results())),
{
    if has_results(s) {
        let i = choose|i: int| 0 <= i < s.len() && is_start_of(#[trigger] s[i], name_results());
        assert(s.push(it)[i] == s[i]);
    }
    if is_start_of(it, name_results()) { assert(s.push(it)[s.len() as int] == it); }
    if has_results(s.push(it)) {
        let i = choose|i: int| 0 <= i < s.push(it).len() && is_start_of(#[trigger] s.push(it)[i], name_results());
        if i < s.len() { assert(s.push(it)[i] == s[i]); }
    }
}
pub broadcast proof fn lemma_has_ok_in_results_push(s: Seq<Item>, it: Item)
    ensures #[trigger] has_ok_in_results(s.push(it)) == (has_ok_in_results(s) || (has_results(s) && is_empty_of(it, name_ok()))),
{
    let s2 = s.push(it);
    if has_ok_in_results(s) {
        let (i, j) = choose|i: int, j: int| 0 <= i < j < s.len() && is_start_of(#[trigger] s[i], name_results()) && is_empty_of(#[trigger] s[j], name_ok());
        assert(s2[i] == s[i] && s2[j] == s[j]);
    }
    if has_results(s) && is_empty_of(it, name_ok()) {
        let i = choose|i: int| 0 <= i < s.len() && is_start_of(#[trigger] s[i], name_results());
        assert(s2[i] == s[i] && s2[s.len() as int] == it);
    }
    if has_ok_in_results(s2) {
        let (i, j) = choose|i: int, j: int| 0 <= i < j < s2.len() && is_start_of(#[trigger] s2[i], name_results()) && is_empty_of(#[trigger] s2[j], name_ok());
        assert(s2[i] == s[i]);
        if j < s.len() { assert(s2[j] == s[j]); }
    }
}
pub broadcast group reply_lemmas { xml_log_lemmas, lemma_errors_of_push, lemma_all_parsed_push_plain, lemma_all_parsed_push_error, lemma_has_ok_push, lemma_has_data_push, lemma_has_results_push, lemma_has_ok_in_results_push }

// ---------- shims: crate-level types ----------
pub struct BoxErr;
impl From<ParseIntError> for BoxErr { #[verifier::external_body] fn from(e: ParseIntError) -> (r: BoxErr) { unimplemented!() } }
pub enum ReadError { UnexpectedXmlEvent(Event), MissingElement, Other(BoxErr) }
impl ReadError {
    #[verifier::external_body]
    pub fn missing_element(msg_type: &str, element: &str) -> (r: ReadError) { unimplemented!() }
}
impl From<XmlError> for ReadError { #[verifier::external_body] fn from(e: XmlError) -> (r: ReadError) { unimplemented!() } }
// crate::Error (only the variant the property talks about is kept apart): `RpcError(#[from] rpc::Errors)`
pub enum Error { RpcError(rpc::Errors), Other }
impl FromSpecImpl<rpc::Errors> for Error {
    open spec fn obeys_from_spec() -> bool { true }
    open spec fn from_spec(e: rpc::Errors) -> Error { Error::RpcError(e) }
}
impl From<rpc::Errors> for Error { #[verifier::external_body] fn from(e: rpc::Errors) -> (r: Error) { unimplemented!() } }

// payload readers (D::read_xml): ASSUMED to consume events and to record one Data item
pub trait ReadXml: Sized {
    fn read_xml(reader: &mut NsReader, start: &BytesStart) -> (r: Result<Self, ReadError>)
        ensures
            final(reader).remaining@.len() <= old(reader).remaining@.len(),
            r is Ok ==> final(reader).log@ == old(reader).log@.push(Item::Data),
            r is Err ==> is_prefix(old(reader).log@, final(reader).log@);
}

// (defined at the crate root and re-exported: deriving Structural inside a module trips a Verus internal error)
#[derive(PartialEq, Eq, Structural)]
//@item file=netconf/src/message/rpc/error.rs kind=enum name=Severity

pub mod rpc {
use super::*;
broadcast use reply_lemmas;

pub use super::Severity;
// rpc::Error: all fields other than the severity are abstracted into `ident`
pub struct Error { pub severity: Severity, pub ident: u64 }
impl PartialEq for Error { #[verifier::external_body] fn eq(&self, other: &Self) -> (r: bool) { unimplemented!() } }
impl Error {
    // ASSUMED contract of rpc::Error::read_xml (verified separately for termination / panic-freedom, unit a2_error):
    // consumes the <rpc-error> subtree and yields its value, or fails.
    #[verifier::external_body]
    pub fn read_xml(reader: &mut NsReader, start: &BytesStart) -> (r: Result<Error, ReadError>)
        ensures
            final(reader).remaining@.len() <= old(reader).remaining@.len(),
            match r {
                Ok(e) => final(reader).log@ == old(reader).log@.push(Item::RpcError(e)),
                Err(_) => is_prefix(old(reader).log@, final(reader).log@),
            }
    { unimplemented!() }
}

//@item file=netconf/src/message/rpc/error.rs kind=struct name=Errors sub=/inner:=>pub inner:/
impl View for Errors { type V = Seq<Error>; open spec fn view(&self) -> Seq<Error> { self.inner@ } }
impl Errors {
//@extract id=errors_new file=netconf/src/message/rpc/error.rs impl=/^impl Errors/ fn=new rules=R1 vis=pub
//@contract
        ensures res@ == Seq::<Error>::empty(),                                                // OBL:C08+C04.errors.new_is_empty
//@end
//@extract id=errors_is_empty file=netconf/src/message/rpc/error.rs impl=/^impl Errors/ fn=is_empty rules=R1 vis=pub
//@contract
        ensures res == (self@.len() == 0),                                                    // OBL:C08+C04.errors.is_empty_means_none
//@end
//@extract id=errors_len file=netconf/src/message/rpc/error.rs impl=/^impl Errors/ fn=len rules=R1 vis=pub
//@contract
        ensures res == self@.len(),                                                           // OBL:C08+C04.errors.len_counts_all
//@end
//@extract id=errors_push file=netconf/src/message/rpc/error.rs impl=/^impl Errors/ fn=push rules=R1 vis=pub
//@contract
        ensures final(self)@ == old(self)@.push(err),                                         // OBL:C08+C04.errors.push_keeps_every_error_in_order
//@end
//@extract id=errors_has_severity_error file=netconf/src/message/rpc/error.rs impl=/^impl Errors/ fn=has_severity_error rules=R1,R7,R19,R17 r7map=option vis=pub
//@contract
        ensures res == has_severity_error(self@),                                             // OBL:C08.errors.has_severity_error_means_any
//@loop 1 optional
            invariant_except_break
                !r__0,
            invariant
                s__0@ == self@, 0 <= i__0 <= s__0@.len(),
                forall|j: int| 0 <= j < i__0 ==> (#[trigger] self@[j]).severity != Severity::Error,
            ensures
                r__0 <==> has_severity_error(self@),
            decreases s__0@.len() - i__0,
//@end
}

//@item file=netconf/src/message/rpc/mod.rs kind=enum name=EmptyReply

pub open spec fn empty_reply_read_post(seg: Seq<Item>, res: Result<EmptyReply, ReadError>) -> bool {
    match res {
        Ok(EmptyReply::Ok) => has_ok(seg) && all_parsed(seg) && errors_of(seg).len() == 0,
        Ok(EmptyReply::Errs(errs)) => errs@ =~= errors_of(seg) && errs@.len() > 0 && all_parsed(seg),
        Err(_) => true,
    }
}
impl EmptyReply {
//@extract id=empty_reply_read_xml file=netconf/src/message/rpc/mod.rs impl=/impl ReadXml for EmptyReply/ fn=read_xml rules=R1,R2,R7,R11,R15,R17 r7map=option vis=pub
//@local errors /let mut (\w+) = Errors::new\(\)/
//@local this /Errors::new\(\);\s*let mut (\w+) = None;/
//@contract
        ensures
            // (stated for Ok results only: nothing is claimed about the reader after a parse error)
            res is Ok ==> final(reader).remaining@.len() <= old(reader).remaining@.len(),
            res is Ok ==> is_prefix(old(reader).log@, final(reader).log@),
            res is Ok ==> empty_reply_read_post(seg_of(old(reader).log@, final(reader).log@), res),    // OBL:C08.empty_reply.read
//@loop 1
            invariant
                is_prefix(old(reader).log@, reader.log@),
                reader.remaining@.len() <= old(reader).remaining@.len(),
                errors@ =~= errors_of(seg_of(old(reader).log@, reader.log@)),             // OBL:C08.empty_reply.errors_exact_in_order
                all_parsed(seg_of(old(reader).log@, reader.log@)),                        // OBL:C08.empty_reply.no_error_skipped
                this is Some ==> (this == Some(EmptyReply::Ok) && has_ok(seg_of(old(reader).log@, reader.log@)) && errors@.len() == 0), // OBL:C08.empty_reply.ok_only_without_errors
            decreases reader.remaining@.len(),                                            // OBL:C14.empty_reply.terminates
//@end
//@extract id=empty_reply_into_result file=netconf/src/message/rpc/mod.rs impl=/impl IntoResult for EmptyReply/ fn=into_result rules=R1,R2 vis=pub
//@sig pub fn into_result(self) -> (res: Result<(), crate::Error>)
//@contract
        ensures match self { EmptyReply::Ok => res is Ok, EmptyReply::Errs(errs) => res == Err::<(), crate::Error>(crate::Error::RpcError(errs)) },  // OBL:C08.empty_reply.into_result
//@end
}
// C08 for operations with an <ok/> reply: follows from the two contracts above
pub proof fn lemma_c08_empty_reply(seg: Seq<Item>, reply: EmptyReply, r: Result<(), crate::Error>)
    requires
        empty_reply_read_post(seg, Ok(reply)),
        match reply { EmptyReply::Ok => r is Ok, EmptyReply::Errs(errs) => r == Err::<(), crate::Error>(crate::Error::RpcError(errs)) },
    ensures c08(seg, has_ok(seg), r),                                                    // OBL:C08.empty_reply.property
{
}

//@item file=netconf/src/message/rpc/mod.rs kind=enum name=DataReply

pub open spec fn data_reply_read_post<D>(seg: Seq<Item>, res: Result<DataReply<D>, ReadError>) -> bool {
    match res {
        Ok(DataReply::Data(_)) => has_data(seg) && all_parsed(seg) && errors_of(seg).len() == 0,
        Ok(DataReply::Errs(errs)) => errs@ =~= errors_of(seg) && errs@.len() > 0 && all_parsed(seg),
        Err(_) => true,
    }
}
impl<D: ReadXml> DataReply<D> {
//@extract id=data_reply_read_xml file=netconf/src/message/rpc/mod.rs impl=/impl<D: ReadXml> ReadXml for DataReply<D>/ fn=read_xml rules=R1,R2,R7,R11,R15,R17 r7map=option vis=pub
//@local errors /let mut (\w+) = Errors::new\(\)/
//@local this /Errors::new\(\);\s*let mut (\w+) = None;/
//@contract
        ensures
            res is Ok ==> final(reader).remaining@.len() <= old(reader).remaining@.len(),
            res is Ok ==> is_prefix(old(reader).log@, final(reader).log@),
            res is Ok ==> data_reply_read_post(seg_of(old(reader).log@, final(reader).log@), res),    // OBL:C08+C04.data_reply.read
//@loop 1
            invariant
                is_prefix(old(reader).log@, reader.log@),
                reader.remaining@.len() <= old(reader).remaining@.len(),
                errors@ =~= errors_of(seg_of(old(reader).log@, reader.log@)),             // OBL:C08+C04.data_reply.errors_exact_in_order
                all_parsed(seg_of(old(reader).log@, reader.log@)),                        // OBL:C08+C04.data_reply.no_error_skipped
                this is Some ==> (this matches Some(DataReply::Data(_)) && has_data(seg_of(old(reader).log@, reader.log@)) && errors@.len() == 0), // OBL:C08+C04.data_reply.data_only_without_errors
            decreases reader.remaining@.len(),                                            // OBL:C14.data_reply.terminates
//@end
}
impl<D> DataReply<D> {
//@extract id=data_reply_into_result file=netconf/src/message/rpc/mod.rs impl=/impl<D> IntoResult for DataReply<D>/ fn=into_result rules=R1,R2 vis=pub
//@sig pub fn into_result(self) -> (res: Result<D, crate::Error>)
//@contract
        ensures match self { DataReply::Data(d) => res == Ok::<D, crate::Error>(d), DataReply::Errs(errs) => res == Err::<D, crate::Error>(crate::Error::RpcError(errs)) },  // OBL:C08+C04.data_reply.into_result
//@end
}
pub proof fn lemma_c08_data_reply<D>(seg: Seq<Item>, reply: DataReply<D>, r: Result<D, crate::Error>)
    requires
        data_reply_read_post(seg, Ok(reply)),
        match reply { DataReply::Data(d) => r == Ok::<D, crate::Error>(d), DataReply::Errs(errs) => r == Err::<D, crate::Error>(crate::Error::RpcError(errs)) },
    ensures c08(seg, has_data(seg), r),                                                  // OBL:C08+C04.data_reply.property
{
}

pub mod junos {
use super::*;
use super::super::*;
use super::{Error, Errors};
broadcast use reply_lemmas;

//@item file=netconf/src/message/rpc/operation/junos/mod.rs kind=enum name=BareReply

pub open spec fn bare_reply_read_post(seg: Seq<Item>, res: Result<BareReply, ReadError>) -> bool {
    match res {
        Ok(BareReply::Ok) => all_parsed(seg) && errors_of(seg).len() == 0,
        Ok(BareReply::Errs(errs)) => errs@ =~= errors_of(seg) && errs@.len() > 0 && all_parsed(seg),
        Err(_) => true,
    }
}
impl BareReply {
//@extract id=bare_reply_read_xml file=netconf/src/message/rpc/operation/junos/mod.rs impl=/impl ReadXml for BareReply/ fn=read_xml rules=R1,R2,R7,R11,R15,R17 vis=pub
//@local errors /let mut (\w+) = Errors::new\(\)/
//@contract
        ensures
            res is Ok ==> final(reader).remaining@.len() <= old(reader).remaining@.len(),
            res is Ok ==> is_prefix(old(reader).log@, final(reader).log@),
            res is Ok ==> bare_reply_read_post(seg_of(old(reader).log@, final(reader).log@), res),    // OBL:C08.bare_reply.read
//@loop 1
            invariant
                is_prefix(old(reader).log@, reader.log@),
                reader.remaining@.len() <= old(reader).remaining@.len(),
                errors@ =~= errors_of(seg_of(old(reader).log@, reader.log@)),             // OBL:C08.bare_reply.errors_exact_in_order
                all_parsed(seg_of(old(reader).log@, reader.log@)),                        // OBL:C08.bare_reply.no_error_skipped
            decreases reader.remaining@.len(),                                            // OBL:C14.bare_reply.terminates
//@end
//@extract id=bare_reply_into_result file=netconf/src/message/rpc/operation/junos/mod.rs impl=/impl IntoResult for BareReply/ fn=into_result rules=R1,R2 vis=pub
//@sig pub fn into_result(self) -> (res: Result<(), crate::Error>)
//@contract
        ensures match self { BareReply::Ok => res is Ok, BareReply::Errs(errs) => res == Err::<(), crate::Error>(crate::Error::RpcError(errs)) },  // OBL:C08+C04.bare_reply.into_result
//@end
}
// positive indication of the bare Junos operations = an (otherwise) empty reply
pub proof fn lemma_c08_bare_reply(seg: Seq<Item>, reply: BareReply, r: Result<(), crate::Error>)
    requires
        bare_reply_read_post(seg, Ok(reply)),
        match reply { BareReply::Ok => r is Ok, BareReply::Errs(errs) => r == Err::<(), crate::Error>(crate::Error::RpcError(errs)) },
    ensures c08(seg, true, r),                                                           // OBL:C08.bare_reply.property
{
}

pub mod load_configuration {
use super::super::*;
use super::super::super::*;
use crate::rpc;
use crate::rpc::Errors;
broadcast use reply_lemmas;

impl CowStr {
    // str::parse::<usize>()
    #[verifier::external_body]
    pub fn parse<T>(&self) -> (r: Result<T, ParseIntError>) { unimplemented!() }
}

//@item file=netconf/src/message/rpc/operation/junos/load_configuration.rs kind=enum name=Reply

pub open spec fn load_reply_read_post(seg: Seq<Item>, res: Result<Reply, ReadError>) -> bool {
    match res {
        Ok(Reply::Ok) => has_ok_in_results(seg) && all_parsed(seg) && !has_severity_error(errors_of(seg)),
        Ok(Reply::Errs(errs)) => errs@ =~= errors_of(seg) && all_parsed(seg),
        Err(_) => true,
    }
}
impl Reply {
//@extract id=load_reply_read_xml file=netconf/src/message/rpc/operation/junos/load_configuration.rs impl=/impl ReadXml for Reply/ fn=read_xml rules=R1,R2,R7,R8,R11,R15,R17 r7map=result constpats=xmlns::BASE vis=pub
//@local errors /let mut (\w+) = Errors::new\(\)/
//@local this /Errors::new\(\);\s*let mut (\w+) = None;/
//@contract
        ensures
            res is Ok ==> final(reader).remaining@.len() <= old(reader).remaining@.len(),
            res is Ok ==> is_prefix(old(reader).log@, final(reader).log@),
            res is Ok ==> load_reply_read_post(seg_of(old(reader).log@, final(reader).log@), res),    // OBL:C08+C04.load_reply.read
//@loop 1
            invariant
                is_prefix(old(reader).log@, reader.log@),
                reader.remaining@.len() <= old(reader).remaining@.len(),
                errors@ =~= errors_of(seg_of(old(reader).log@, reader.log@)),             // OBL:C08+C04.load_reply.errors_exact_in_order
                all_parsed(seg_of(old(reader).log@, reader.log@)),                        // OBL:C08+C04.load_reply.no_error_skipped
                this is Some ==> (this == Some(Reply::Ok) && has_ok_in_results(seg_of(old(reader).log@, reader.log@)) && !has_severity_error(errors@)), // OBL:C08+C04.load_reply.ok_only_without_error_severity
            decreases reader.remaining@.len(),                                            // OBL:C14.load_reply.terminates
//@loop 2
                        invariant
                            is_prefix(old(reader).log@, reader.log@),
                            reader.remaining@.len() <= old(reader).remaining@.len(),
                            errors@ =~= errors_of(seg_of(old(reader).log@, reader.log@)),             // OBL:C08+C04.load_reply.errors_exact_in_order_inner
                            all_parsed(seg_of(old(reader).log@, reader.log@)),                        // OBL:C08+C04.load_reply.no_error_skipped_inner
                            has_results(seg_of(old(reader).log@, reader.log@)),
                            reader.remaining@.len() <= rem_at_results,
                            this is Some ==> (this == Some(Reply::Ok) && has_ok_in_results(seg_of(old(reader).log@, reader.log@)) && !has_severity_error(errors@)), // OBL:C08+C04.load_reply.ok_only_without_error_severity_inner
                        decreases reader.remaining@.len(),                                            // OBL:C14.load_reply.terminates_inner
//@before /let end = tag\.to_end\(\);/
                    let ghost rem_at_results = reader.remaining@.len();
//@end
//@extract id=load_reply_into_result file=netconf/src/message/rpc/operation/junos/load_configuration.rs impl=/impl IntoResult for Reply/ fn=into_result rules=R1,R2 vis=pub
//@sig pub fn into_result(self) -> (res: Result<(), crate::Error>)
//@contract
        ensures match self { Reply::Ok => res is Ok, Reply::Errs(errs) => res == Err::<(), crate::Error>(crate::Error::RpcError(errs)) },  // OBL:C08+C04.load_reply.into_result
//@end
}
pub proof fn lemma_c08_load_reply(seg: Seq<Item>, reply: Reply, r: Result<(), crate::Error>)
    requires
        load_reply_read_post(seg, Ok(reply)),
        match reply { Reply::Ok => r is Ok, Reply::Errs(errs) => r == Err::<(), crate::Error>(crate::Error::RpcError(errs)) },
    ensures c08(seg, has_ok_in_results(seg), r),                                         // OBL:C08+C04.load_reply.property
{
}
} // mod load_configuration
} // mod junos

} // mod rpc

} // verus!
fn main() {}

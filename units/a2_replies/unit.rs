// Unit A2 — reply readers (C08; C14 side obligations: termination, no panic, Ok-or-Err for every event sequence).
use vstd::prelude::*;
use vstd::std_specs::convert::FromSpecImpl;
verus! {

//@include units/common_xml.rs

broadcast use {lemma_seg_push, lemma_seg_refl, lemma_prefix_trans};

//@bytelits

// ---------- spec (from C08) ----------
pub open spec fn name_rpc_error() -> Seq<u8> { seq![114u8, 112, 99, 45, 101, 114, 114, 111, 114] }   // "rpc-error"
pub open spec fn name_ok() -> Seq<u8> { seq![111u8, 107] }                                           // "ok"
pub open spec fn name_data() -> Seq<u8> { seq![100u8, 97, 116, 97] }                                 // "data"
pub open spec fn name_results() -> Seq<u8> {                                                          // "load-configuration-results"
    seq![108u8, 111, 97, 100, 45, 99, 111, 110, 102, 105, 103, 117, 114, 97, 116, 105, 111, 110, 45, 114, 101, 115, 117, 108, 116, 115]
}
pub open spec fn is_start_of(it: Item, name: Seq<u8>) -> bool {
    it matches Item::Ev(ResolveResult::Bound(ns), Event::Start(tag)) && ns == xmlns::BASE && tag.lname@ == name
}
pub open spec fn is_empty_of(it: Item, name: Seq<u8>) -> bool {
    it matches Item::Ev(ResolveResult::Bound(ns), Event::Empty(tag)) && ns == xmlns::BASE && tag.lname@ == name
}
// the rpc-errors of the consumed part of a reply, in document order
pub open spec fn errors_of(s: Seq<Item>) -> Seq<rpc::Error>
    decreases s.len()
{
    if s.len() == 0 { Seq::<rpc::Error>::empty() } else {
        match s.last() { Item::RpcError(e) => errors_of(s.drop_last()).push(e), _ => errors_of(s.drop_last()) }
    }
}
// every <rpc-error> element the reader has passed over was parsed into the error list (none skipped)
pub open spec fn all_parsed(s: Seq<Item>) -> bool {
    forall|i: int| 0 <= i < s.len() && is_start_of(#[trigger] s[i], name_rpc_error()) ==> i + 1 < s.len() && s[i + 1] is RpcError
}
pub open spec fn has_item(s: Seq<Item>, f: spec_fn(Item) -> bool) -> bool { exists|i: int| 0 <= i < s.len() && f(#[trigger] s[i]) }
pub open spec fn has_ok(s: Seq<Item>) -> bool { exists|i: int| 0 <= i < s.len() && is_empty_of(#[trigger] s[i], name_ok()) }
pub open spec fn has_data(s: Seq<Item>) -> bool { exists|i: int| 0 <= i < s.len() && (#[trigger] s[i]) is Data }
pub open spec fn has_severity_error(errs: Seq<rpc::Error>) -> bool {
    exists|i: int| 0 <= i < errs.len() && (#[trigger] errs[i]).severity == rpc::Severity::Error
}
// C08, as a predicate on (what the reply contained, what the library reported):
//  * success is reported only if the reply carried the positive indication and no rpc-error of severity error
//  * reported server errors are exactly the reply's errors, in order
pub open spec fn c08<T>(seg: Seq<Item>, positive: bool, r: Result<T, Error>) -> bool {
    &&& r is Ok ==> (positive && all_parsed(seg) && !has_severity_error(errors_of(seg)))
    &&& (r matches Err(Error::RpcError(l)) ==> l@ =~= errors_of(seg) && all_parsed(seg))
}

pub broadcast proof fn lemma_errors_of_push(s: Seq<Item>, it: Item)
    ensures #[trigger] errors_of(s.push(it)) == (match it { Item::RpcError(e) => errors_of(s).push(e), _ => errors_of(s) }),
{
    assert(s.push(it).drop_last() =~= s);
}
pub broadcast proof fn lemma_all_parsed_push_plain(s: Seq<Item>, it: Item)
    requires all_parsed(s), !is_start_of(it, name_rpc_error()),
    ensures #[trigger] all_parsed(s.push(it)),
{
}
pub broadcast proof fn lemma_all_parsed_push_error(s: Seq<Item>, a: Item, e: rpc::Error)
    requires all_parsed(s),
    ensures #[trigger] all_parsed(s.push(a).push(Item::RpcError(e))),
{
}
pub broadcast proof fn lemma_has_ok_push(s: Seq<Item>, it: Item)
    ensures #[trigger] has_ok(s.push(it)) == (has_ok(s) || is_empty_of(it, name_ok())),
{
    if has_ok(s) {
        let i = choose|i: int| 0 <= i < s.len() && is_empty_of(#[trigger] s[i], name_ok());
        assert(s.push(it)[i] == s[i]);
    }
    if is_empty_of(it, name_ok()) { assert(s.push(it)[s.len() as int] == it); }
    if has_ok(s.push(it)) {
        let i = choose|i: int| 0 <= i < s.push(it).len() && is_empty_of(#[trigger] s.push(it)[i], name_ok());
        if i < s.len() { assert(s.push(it)[i] == s[i]); }
    }
}
pub broadcast proof fn lemma_has_data_push(s: Seq<Item>, it: Item)
    ensures #[trigger] has_data(s.push(it)) == (has_data(s) || it is Data),
{
    if has_data(s) {
        let i = choose|i: int| 0 <= i < s.len() && (#[trigger] s[i]) is Data;
        assert(s.push(it)[i] == s[i]);
    }
    if it is Data { assert(s.push(it)[s.len() as int] == it); }
    if has_data(s.push(it)) {
        let i = choose|i: int| 0 <= i < s.push(it).len() && (#[trigger] s.push(it)[i]) is Data;
        if i < s.len() { assert(s.push(it)[i] == s[i]); }
    }
}
pub broadcast proof fn lemma_names_distinct()
    ensures #[trigger] name_rpc_error() != name_ok(), name_rpc_error() != name_data(), name_rpc_error() != name_results(),
{
    assert(name_rpc_error().len() == 9); assert(name_ok().len() == 2); assert(name_data().len() == 4); assert(name_results().len() == 26);
}
broadcast use {lemma_errors_of_push, lemma_all_parsed_push_plain, lemma_all_parsed_push_error, lemma_has_ok_push, lemma_has_data_push};

// ---------- shims: crate-level types ----------
pub enum ReadError { UnexpectedXmlEvent(Event), MissingElement, Other }
impl ReadError {
    #[verifier::external_body]
    pub fn missing_element(msg_type: &str, element: &str) -> (r: ReadError) { unimplemented!() }
}
impl From<XmlError> for ReadError { #[verifier::external_body] fn from(e: XmlError) -> (r: ReadError) { unimplemented!() } }
// crate::Error (only the variant the property talks about is kept apart): `RpcError(#[from] rpc::Errors)`
pub enum Error { RpcError(rpc::Errors), Other }
impl FromSpecImpl<rpc::Errors> for Error {
    open spec fn obeys_from_spec() -> bool { true }
    open spec fn from_spec(e: rpc::Errors) -> Error { Error::RpcError(e) }
}
impl From<rpc::Errors> for Error { #[verifier::external_body] fn from(e: rpc::Errors) -> (r: Error) { unimplemented!() } }

// payload readers (D::read_xml): ASSUMED to consume events and to record one Data item
pub trait ReadXml: Sized {
    fn read_xml(reader: &mut NsReader, start: &BytesStart) -> (r: Result<Self, ReadError>)
        ensures
            final(reader).remaining@.len() <= old(reader).remaining@.len(),
            r is Ok ==> final(reader).log@ == old(reader).log@.push(Item::Data),
            r is Err ==> is_prefix(old(reader).log@, final(reader).log@);
}

pub mod rpc {
use super::*;

//@item file=netconf/src/message/rpc/error.rs kind=enum name=Severity
// rpc::Error: all fields other than the severity are abstracted into `ident`
pub struct Error { pub severity: Severity, pub ident: u64 }
impl Error {
    // ASSUMED contract of rpc::Error::read_xml (verified separately for termination / panic-freedom, unit a2_error):
    // consumes the <rpc-error> subtree and yields its value, or fails.
    #[verifier::external_body]
    pub fn read_xml(reader: &mut NsReader, start: &BytesStart) -> (r: Result<Error, ReadError>)
        ensures
            final(reader).remaining@.len() <= old(reader).remaining@.len(),
            match r {
                Ok(e) => final(reader).log@ == old(reader).log@.push(Item::RpcError(e)),
                Err(_) => is_prefix(old(reader).log@, final(reader).log@),
            }
    { unimplemented!() }
}

//@item file=netconf/src/message/rpc/error.rs kind=struct name=Errors sub=inner:=>pub inner:
impl View for Errors { type V = Seq<Error>; open spec fn view(&self) -> Seq<Error> { self.inner@ } }
impl Errors {
//@extract id=errors_new file=netconf/src/message/rpc/error.rs impl=/^impl Errors/ fn=new rules=R1 vis=pub
//@contract
        ensures res@ == Seq::<Error>::empty(),
//@end
//@extract id=errors_is_empty file=netconf/src/message/rpc/error.rs impl=/^impl Errors/ fn=is_empty rules=R1 vis=pub
//@contract
        ensures res == (self@.len() == 0),
//@end
//@extract id=errors_len file=netconf/src/message/rpc/error.rs impl=/^impl Errors/ fn=len rules=R1 vis=pub
//@contract
        ensures res == self@.len(),
//@end
//@extract id=errors_push file=netconf/src/message/rpc/error.rs impl=/^impl Errors/ fn=push rules=R1 vis=pub
//@contract
        ensures final(self)@ == old(self)@.push(err),
//@end
    // Errors::has_severity_error (iterator `any` with a closure: outside Verus' reach) — ASSUMED to be what its body says
    #[verifier::external_body]
    pub fn has_severity_error(&self) -> (res: bool) ensures res == has_severity_error(self@) { unimplemented!() }
}

//@item file=netconf/src/message/rpc/mod.rs kind=enum name=EmptyReply

pub open spec fn empty_reply_read_post(seg: Seq<Item>, res: Result<EmptyReply, ReadError>) -> bool {
    match res {
        Ok(EmptyReply::Ok) => has_ok(seg) && all_parsed(seg) && errors_of(seg).len() == 0,
        Ok(EmptyReply::Errs(errs)) => errs@ =~= errors_of(seg) && errs@.len() > 0 && all_parsed(seg),
        Err(_) => true,
    }
}
impl EmptyReply {
//@extract id=empty_reply_read_xml file=netconf/src/message/rpc/mod.rs impl=/impl ReadXml for EmptyReply/ fn=read_xml rules=R1,R2,R7,R11 r7map=option vis=pub
//@contract
        ensures
            final(reader).remaining@.len() <= old(reader).remaining@.len(),
            is_prefix(old(reader).log@, final(reader).log@),
            empty_reply_read_post(seg_of(old(reader).log@, final(reader).log@), res),    // OBL:C08.empty_reply.read
//@loop 1
            invariant
                is_prefix(old(reader).log@, reader.log@),
                reader.remaining@.len() <= old(reader).remaining@.len(),
                errors@ =~= errors_of(seg_of(old(reader).log@, reader.log@)),             // OBL:C08.empty_reply.errors_exact_in_order
                all_parsed(seg_of(old(reader).log@, reader.log@)),                        // OBL:C08.empty_reply.no_error_skipped
                this is Some ==> (this == Some(EmptyReply::Ok) && has_ok(seg_of(old(reader).log@, reader.log@)) && errors@.len() == 0), // OBL:C08.empty_reply.ok_only_without_errors
            decreases reader.remaining@.len(),                                            // OBL:C14.empty_reply.terminates
//@end
//@extract id=empty_reply_into_result file=netconf/src/message/rpc/mod.rs impl=/impl IntoResult for EmptyReply/ fn=into_result rules=R1 vis=pub
//@sig pub fn into_result(self) -> (res: Result<(), crate::Error>)
//@contract
        ensures match self { EmptyReply::Ok => res is Ok, EmptyReply::Errs(errs) => res == Err::<(), crate::Error>(crate::Error::RpcError(errs)) },  // OBL:C08.empty_reply.into_result
//@end
}
// C08 for operations with an <ok/> reply: follows from the two contracts above
pub proof fn lemma_c08_empty_reply(seg: Seq<Item>, reply: EmptyReply, r: Result<(), crate::Error>)
    requires
        empty_reply_read_post(seg, Ok(reply)),
        match reply { EmptyReply::Ok => r is Ok, EmptyReply::Errs(errs) => r == Err::<(), crate::Error>(crate::Error::RpcError(errs)) },
    ensures c08(seg, has_ok(seg), r),                                                    // OBL:C08.empty_reply.property
{
}

} // mod rpc

} // verus!
fn main() {}

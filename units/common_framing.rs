// Shared prelude: end-of-message framing spec (from RFC 6242 4.3 / property C06) and total lemmas.
// ---------- spec: the framing the property talks about (RFC 6242 §4.3 end-of-message "]]>]]>") ----------
pub open spec fn marker() -> Seq<u8> { seq![93u8, 93, 62, 93, 93, 62] }

pub open spec fn marker_at(s: Seq<u8>, i: int) -> bool {
    0 <= i && i + 6 <= s.len() && s.subrange(i, i + 6) == marker()
}
pub open spec fn has_marker(s: Seq<u8>) -> bool { exists|i: int| marker_at(s, i) }
pub open spec fn first_marker(s: Seq<u8>, i: int) -> bool {
    marker_at(s, i) && forall|j: int| 0 <= j < i ==> !marker_at(s, j)
}
pub open spec fn no_marker_before(s: Seq<u8>, k: int) -> bool {
    forall|j: int| 0 <= j < k ==> !marker_at(s, j)
}

// ---------- lemmas (total: no preconditions, so a hint can never be the failing obligation) ----------
pub proof fn lemma_marker_append(a: Seq<u8>, b: Seq<u8>, j: int)
    ensures (0 <= j && j + 6 <= a.len()) ==> marker_at(a + b, j) == marker_at(a, j),
{
    if 0 <= j && j + 6 <= a.len() {
        assert((a + b).subrange(j, j + 6) =~= a.subrange(j, j + 6));
    }
}
pub proof fn lemma_marker_suffix(s: Seq<u8>, k: int, i: int)
    ensures (0 <= k <= s.len() && 0 <= i) ==> marker_at(s.subrange(k, s.len() as int), i) == marker_at(s, k + i),
{
    if 0 <= k <= s.len() && 0 <= i && i + 6 <= s.len() - k {
        assert(s.subrange(k, s.len() as int).subrange(i, i + 6) =~= s.subrange(k + i, k + i + 6));
    }
}
pub proof fn lemma_marker_prefix(s: Seq<u8>, e: int, i: int)
    ensures (0 <= i && i + 6 <= e <= s.len()) ==> marker_at(s.subrange(0, e), i) == marker_at(s, i),
{
    if 0 <= i && i + 6 <= e <= s.len() {
        assert(s.subrange(0, e).subrange(i, i + 6) =~= s.subrange(i, i + 6));
    }
}
// find() on the unsearched tail + "nothing before `k`"  ==>  first marker of the whole buffer
pub proof fn lemma_first_marker_shift(b: Seq<u8>, k: int, i: int)
    ensures (0 <= k <= b.len() && 0 <= i && no_marker_before(b, k) && first_marker(b.subrange(k, b.len() as int), i))
        ==> first_marker(b, k + i),
{
    if 0 <= k <= b.len() && 0 <= i && no_marker_before(b, k) && first_marker(b.subrange(k, b.len() as int), i) {
        lemma_marker_suffix(b, k, i);
        assert forall|j: int| 0 <= j < k + i implies !marker_at(b, j) by {
            if j >= k { lemma_marker_suffix(b, k, j - k); }
        }
    }
}
pub proof fn lemma_first_marker_shift_all(b: Seq<u8>, k: int)
    ensures forall|i: int| (0 <= k <= b.len() && 0 <= i && no_marker_before(b, k) && #[trigger] first_marker(b.subrange(k, b.len() as int), i))
        ==> first_marker(b, k + i),
{
    assert forall|i: int| (0 <= k <= b.len() && 0 <= i && no_marker_before(b, k) && #[trigger] first_marker(b.subrange(k, b.len() as int), i))
        implies first_marker(b, k + i) by { lemma_first_marker_shift(b, k, i); }
}
pub proof fn lemma_no_marker_shift(b: Seq<u8>, k: int)
    ensures (0 <= k <= b.len() && no_marker_before(b, k) && !has_marker(b.subrange(k, b.len() as int))) ==> !has_marker(b),
{
    if 0 <= k <= b.len() && no_marker_before(b, k) && !has_marker(b.subrange(k, b.len() as int)) {
        assert forall|j: int| !marker_at(b, j) by {
            if j >= k { lemma_marker_suffix(b, k, j - k); }
        }
    }
}
// appending bytes cannot create a marker that lies entirely inside the old part
pub proof fn lemma_no_marker_extend(a: Seq<u8>, ext: Seq<u8>)
    ensures !has_marker(a) ==> forall|j: int| 0 <= j && j + 6 <= a.len() ==> !marker_at(a + ext, j),
{
    if !has_marker(a) {
        assert forall|j: int| 0 <= j && j + 6 <= a.len() implies !marker_at(a + ext, j) by {
            lemma_marker_append(a, ext, j);
        }
    }
}
// the first marker of a prefix-closed view: a marker found in `all[..e]` ending at e is the first marker of `all`
pub proof fn lemma_first_marker_prefix_closed(all: Seq<u8>, b: Seq<u8>, i: int)
    ensures (b.len() <= all.len() && b =~= all.subrange(0, b.len() as int) && first_marker(b, i)) ==> first_marker(all, i),
{
    if b.len() <= all.len() && b =~= all.subrange(0, b.len() as int) && first_marker(b, i) {
        lemma_marker_prefix(all, b.len() as int, i);
        assert forall|j: int| 0 <= j < i implies !marker_at(all, j) by {
            lemma_marker_prefix(all, b.len() as int, j);
        }
    }
}
pub proof fn lemma_has_marker_prefix(all: Seq<u8>, e: int)
    ensures (0 <= e <= all.len() && has_marker(all.subrange(0, e))) ==> has_marker(all),
{
    if 0 <= e <= all.len() && has_marker(all.subrange(0, e)) {
        let i = choose|i: int| marker_at(all.subrange(0, e), i);
        lemma_marker_prefix(all, e, i);
    }
}


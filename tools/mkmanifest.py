#!/usr/bin/env python3
"""regenerate MANIFEST.json from units/units.json (single source of truth for what is claimed)"""
import json, os
V = os.path.dirname(os.path.dirname(os.path.abspath(__file__)))
cfg = json.load(open(os.path.join(V, "units", "units.json")))
checks = []
for pid in sorted(cfg["properties"]):
    p = cfg["properties"][pid]
    checks.append({
        "property_id": pid,
        "quick_cmd": "python3 tools/check.py %s --tier quick" % pid,
        "thorough_cmd": "python3 tools/check.py %s --tier thorough" % pid,
        "evidence_file": "/verif/evidence/%s.json" % pid,
        "engine": p.get("engine", "verus-on-extracted-source"),
        "level_claimed": {
            "category": "proof",
            "text": p["level_text"],
            "design_ref": p.get("design_ref", "DESIGN.md section 5"),
        },
        "level_note": p["level_note"],
        "technique": p.get("technique", "contract-based deductive verification: Verus discharges pre/postconditions, loop invariants and decreases clauses spliced onto functions re-extracted from /repo on every run"),
    })
man = {
    "version": 1,
    "setup_cmd": "mkdir -p build evidence replay && python3 tools/selfcheck.py",
    "hooks": {
        "guard": "bgpfu_verif",
        "enable": "none needed: the checks read /repo's source text; no instrumentation is compiled into the crates",
        "baseline_off_cmd": "cd /repo && cargo test --workspace --no-fail-fast --offline",
        "source_commits": [],
        "add_only": True,
    },
    "engines": cfg.get("engines", []),
    "checks": checks,
    "notes": cfg.get("notes", ""),
    "not_applicable": [{"property_id": k, "reason": v} for k, v in sorted(cfg.get("not_applicable", {}).items())],
}
json.dump(man, open(os.path.join(V, "MANIFEST.json"), "w"), indent=1)
print("MANIFEST.json: %d checks, %d not_applicable" % (len(checks), len(man["not_applicable"])))

"""Mechanical extraction of real function text from /repo + rewrite table + contract splicing.

A *unit template* (units/<unit>/unit.rs) is a Verus file containing directives:

    //@extract id=<id> file=<repo-relative path> [impl=/<re>/] fn=<name> [block=/<re>/]
    //         [expr=/<re>/] rules=R1,R2,...
    //@sig <replacement signature>            (only for block=/expr= extractions, or when the
    //                                         source signature mentions types outside the shims;
    //                                         recorded in the evidence as 'signature restated')
    //@contract
    <requires / ensures / decreases clauses, spliced between signature and body>
    //@loop <k>
    <invariant / decreases clauses, spliced after the k-th `loop`/`while` header of the body>
    //@closure <k>
    <requires / ensures for the k-th closure literal>
    //@before /<re>/      |  //@after /<re>/
    <proof text, spliced before the line containing the first match / after the statement>
    //@end

Everything between //@extract and //@end is replaced by the generated function.  All other template
text (spec functions, shims, lemmas) is copied verbatim.  For every generated line the origin is
remembered (repo file:line or template line) so that a Verus diagnostic maps to a named obligation.

Every rewrite preserves the number of newlines of the span, so code line k of the generated function
is source line (span start + k).
"""
from __future__ import annotations
import hashlib
import os
import re
import sys
from dataclasses import dataclass, field

sys.path.insert(0, os.path.dirname(__file__))
from rustlex import lex, match_brackets, sig, Tok, LexError, byte_string_value  # noqa: E402


class ExtractError(Exception):
    """anchor lost / construct outside the rule table: the check must exit 2 (undecided)"""


# ----------------------------------------------------------------------------------------------
# locating items
# ----------------------------------------------------------------------------------------------

@dataclass
class Span:
    file: str
    start: int          # byte offsets into the file text
    end: int
    line0: int          # 1-based line of `start`
    text: str
    sha256: str
    what: str


def _line_of(src: str, off: int) -> int:
    return src.count("\n", 0, off) + 1


def _mk_span(file: str, src: str, a: int, b: int, what: str) -> Span:
    # extend start to the beginning of its line if only whitespace precedes
    ls = src.rfind("\n", 0, a) + 1
    if src[ls:a].strip() == "":
        a = ls
    text = src[a:b]
    return Span(file, a, b, _line_of(src, a), text, hashlib.sha256(text.encode()).hexdigest(), what)



def _walk_back(toks, s, m, k, quals):
    """from s-index k walk back over qualifiers (`pub`, `pub(crate)`, `async`...) and `#[..]` attributes"""
    pos = {ti: si for si, ti in enumerate(s)}
    kk = k
    while kk > 0:
        p = toks[s[kk - 1]]
        if p.kind == "ident" and p.text in quals:
            kk -= 1
        elif p.kind == "punct" and p.text == ")":
            oi = pos[m[s[kk - 1]]]
            if oi >= 1 and toks[s[oi - 1]].text == "pub":
                kk = oi - 1
            else:
                break
        elif p.kind == "punct" and p.text == "]":
            oi = pos[m[s[kk - 1]]]
            if oi >= 1 and toks[s[oi - 1]].text == "#":
                kk = oi - 1
            else:
                break
        else:
            break
    return kk

def find_fn(src: str, name: str, impl_re: str | None = None, nth: int = 1):
    """return (item_start, fn_kw_index, body_open_idx, body_close_idx, toks) for `fn name`"""
    toks = lex(src)
    m = match_brackets(toks)
    s = sig(toks)
    # impl / trait block ranges
    blocks = []  # (header_text, open_idx, close_idx)
    for k, i in enumerate(s):
        t = toks[i]
        if t.kind == "ident" and t.text in ("impl", "trait"):
            # header runs to the first `{` at this level
            j = k + 1
            while j < len(s) and not (toks[s[j]].kind == "punct" and toks[s[j]].text in "{;"):
                if toks[s[j]].kind == "punct" and toks[s[j]].text in "([":
                    # skip bracket group
                    close = m[s[j]]
                    while s[j] != close:
                        j += 1
                j += 1
            if j < len(s) and toks[s[j]].text == "{":
                hdr = " ".join(src[t.start:toks[s[j]].start].split())
                blocks.append((hdr, s[j], m[s[j]]))
    count = 0
    for k, i in enumerate(s):
        t = toks[i]
        if t.kind == "ident" and t.text == "fn" and k + 1 < len(s) and toks[s[k + 1]].text == name \
                and toks[s[k + 1]].kind == "ident":
            if impl_re is not None:
                enclosing = [b for b in blocks if b[1] < i < b[2]]
                if not enclosing:
                    continue
                inner = max(enclosing, key=lambda b: b[1])
                if not re.search(impl_re, inner[0]):
                    continue
            count += 1
            if count != nth:
                continue
            # body: first `{` after the parameter list, skipping bracket groups
            j = k + 2
            body_open = None
            while j < len(s):
                tt = toks[s[j]]
                if tt.kind == "punct" and tt.text in "([":
                    close = m[s[j]]
                    while s[j] != close:
                        j += 1
                elif tt.kind == "punct" and tt.text == "{":
                    body_open = s[j]
                    break
                elif tt.kind == "punct" and tt.text == ";":
                    break
                j += 1
            if body_open is None:
                continue  # declaration without body
            # item start: walk back over qualifiers and attributes
            kk = _walk_back(toks, s, m, k, ("pub", "async", "const", "unsafe"))
            return toks[s[kk]].start, i, body_open, m[body_open], toks
    raise ExtractError("anchor lost: fn %s (impl=%r, nth=%d)" % (name, impl_re, nth))


def find_item(src: str, kind: str, name: str):
    """struct / enum / const / type item by name; returns (start, end) incl. attributes"""
    toks = lex(src)
    m = match_brackets(toks)
    s = sig(toks)
    for k, i in enumerate(s):
        t = toks[i]
        if t.kind == "ident" and t.text == kind and k + 1 < len(s) and toks[s[k + 1]].text == name:
            j = k + 2
            end = None
            while j < len(s):
                tt = toks[s[j]]
                if tt.kind == "punct" and tt.text in "([":
                    close = m[s[j]]
                    while s[j] != close:
                        j += 1
                    # tuple struct ends with `;` later
                elif tt.kind == "punct" and tt.text == "{" and kind in ("struct", "enum"):
                    end = toks[m[s[j]]].end
                    break
                elif tt.kind == "punct" and tt.text == ";":
                    end = tt.end
                    break
                j += 1
            if end is None:
                continue
            kk = _walk_back(toks, s, m, k, ("pub",))
            return toks[s[kk]].start, end
    raise ExtractError("anchor lost: %s %s" % (kind, name))


# ----------------------------------------------------------------------------------------------
# rewrite rules (each preserves the number of newlines)
# ----------------------------------------------------------------------------------------------

def _nl(text: str) -> str:
    return "\n" * text.count("\n")


def _replace(src: str, edits: list[tuple[int, int, str]]) -> str:
    """apply non-overlapping edits (start, end, new) keeping newline count"""
    out, pos = [], 0
    for a, b, new in sorted(edits):
        if a < pos:
            raise ExtractError("overlapping rewrite")
        old = src[a:b]
        lack = old.count("\n") - new.count("\n")
        if lack < 0:
            raise ExtractError("rewrite would add lines")
        out.append(src[pos:a])
        out.append(new + "\n" * lack)
        pos = b
    out.append(src[pos:])
    return "".join(out)


TRACING = ("trace", "debug", "info", "warn", "error")
DROP_ATTRS = re.compile(r"^(tracing\s*::\s*instrument|async_trait|allow|must_use|derive|inline|doc|cfg_attr|default|cfg\(feature)")


def r1_attrs(src, log):
    toks = lex(src); m = match_brackets(toks); s = sig(toks)
    edits = []
    for k, i in enumerate(s):
        if toks[i].text == "#" and k + 1 < len(s) and toks[s[k + 1]].text == "[":
            close = m[s[k + 1]]
            inner = src[toks[s[k + 1]].end:toks[close].start].strip()
            if DROP_ATTRS.match(inner):
                edits.append((toks[i].start, toks[close].end, ""))
            else:
                raise ExtractError("attribute outside rule R1: #[%s]" % inner)
    log["R1"] = log.get("R1", 0) + len(edits)
    return _replace(src, edits)


def r2_logs(src, log):
    toks = lex(src); m = match_brackets(toks); s = sig(toks)
    edits = []
    k = 0
    while k + 5 < len(s):
        a = [toks[s[k + d]] for d in range(6)]
        if a[0].text == "tracing" and a[1].text == ":" and a[2].text == ":" and a[3].text in TRACING \
                and a[4].text == "!" and a[5].text in "([{":
            # must be a statement: previous significant token is one of { } ; or start
            prev = toks[s[k - 1]].text if k > 0 else "{"
            close = m[s[k + 5]]
            ci = s.index(close)
            nxt = toks[s[ci + 1]] if ci + 1 < len(s) else None
            if prev in "{};" and nxt is not None and nxt.text == ";":
                edits.append((a[0].start, nxt.end, ""))
                k = ci + 2
                continue
            elif prev in "{};" and nxt is not None and nxt.text == "}":
                # tail expression of a unit block / closure: replace by ()
                edits.append((a[0].start, toks[close].end, "()"))
                k = ci + 1
                continue
            elif prev == ">" and k >= 2 and toks[s[k - 2]].text == "=" and nxt is not None and nxt.text in (",", "}"):
                # the whole expression of a match arm (`pat => tracing::x!(..),`): the unit value
                edits.append((a[0].start, toks[close].end, "()"))
                k = ci + 1
                continue
            else:
                raise ExtractError("tracing macro in expression position (outside R2)")
        k += 1
    log["R2"] = log.get("R2", 0) + len(edits)
    return _replace(src, edits)


def r3_await(src, log, as_call=False):
    """`.await` is removed (each await is an atomic call to a contract-bearing stub) - or, with awaitcall=1, replaced by
    a call `.await_()` so that awaiting a stored future is a visible step with its own contract"""
    toks = lex(src); s = sig(toks)
    edits = []
    for k, i in enumerate(s):
        t = toks[i]
        if t.kind == "ident" and t.text == "await" and k > 0 and toks[s[k - 1]].text == ".":
            edits.append((toks[s[k - 1]].start, t.end, ".await_()" if as_call else ""))
        if t.kind == "ident" and t.text == "async" and k + 1 < len(s) and toks[s[k + 1]].text == "fn":
            edits.append((t.start, toks[s[k + 1]].start, ""))
    log["R3"] = log.get("R3", 0) + len(edits)
    return _replace(src, edits)


def r4_select(src, log):
    """tokio::select! { p = e => { b } ... }  ->  match nondet_choice() { 0 => { let p = e; b } ... }"""
    toks = lex(src); m = match_brackets(toks); s = sig(toks)
    edits = []
    for k, i in enumerate(s):
        if toks[i].text == "tokio" and k + 5 < len(s) and toks[s[k + 3]].text == "select" and toks[s[k + 4]].text == "!":
            o = s[k + 5]
            c = m[o]
            oi, ci = k + 5, s.index(c)
            hdr_edit = (toks[i].start, toks[o].end)
            j = oi + 1
            arm = 0
            while j < ci:
                # pattern `=` expr `=>` block
                p0 = j
                while not (toks[s[j]].text == "=" and toks[s[j + 1]].text != ">" and toks[s[j - 1]].text not in "=!<>"):
                    j += 1
                eq = j
                j += 1
                e0 = j
                while not (toks[s[j]].text == "=" and toks[s[j + 1]].text == ">"):
                    if toks[s[j]].text in "([{":
                        j = s.index(m[s[j]])
                    j += 1
                arrow = j
                blk = s[j + 2]
                if toks[blk].text != "{":
                    raise ExtractError("select! arm without block (outside R4)")
                pat = src[toks[s[p0]].start:toks[s[eq]].start].strip()
                edits.append((toks[s[p0]].start, toks[s[eq]].end, ""))
                expr_a, expr_b = toks[s[e0]].start, toks[s[arrow]].start
                expr = src[expr_a:expr_b].strip()
                edits.append((expr_a, toks[blk].end, "%s => { let %s = %s;" % (("_" if False else str(arm)), pat, expr)))
                j = s.index(m[blk]) + 1
                if j < ci and toks[s[j]].text == ",":
                    j += 1
                arm += 1
            # default arm to keep the match exhaustive (nondet_choice(n) ensures r < n)
            edits.append((hdr_edit[0], hdr_edit[1], "match nondet_choice(%d) {" % arm))
            edits.append((toks[c].start, toks[c].end, "_ => { nondet_unreachable() } }"))
            log["R4"] = log.get("R4", 0) + 1
            log["R4.arms"] = arm
    return _replace(src, edits)


def _loops(toks, s, m, lo, hi):
    """(kw_index_in_s, body_open, body_close) of loop/while/for in token range"""
    out = []
    for k in range(lo, hi):
        t = toks[s[k]]
        if t.kind == "ident" and t.text in ("loop", "while", "for"):
            j = k + 1
            while j < hi and toks[s[j]].text != "{":
                if toks[s[j]].text in "([":
                    j = s.index(m[s[j]])
                j += 1
            if j < hi:
                out.append((k, s[j], m[s[j]]))
    return out


def r5d_assign_break(src, log):
    """`let V; loop { .. V = E; break; .. } V }`  ->  the loop as tail with `return E;`:
    when the function's tail expression is a bare variable declared without initialiser right before a loop, every
    `V = E; break;` inside that loop is the same as `return E;` (inverse of the usual 'assign then break' refactoring)."""
    toks = lex(src); m = match_brackets(toks); s = sig(toks)
    first_open = next(i for i in s if toks[i].text == "{")
    body_close = m[first_open]
    ci = s.index(body_close)
    if ci < 2 or toks[s[ci - 1]].kind != "ident" or toks[s[ci - 2]].text != "}":
        return src
    var = toks[s[ci - 1]].text
    loop_close = s[ci - 2]
    loop_open = m[loop_close]
    lo = s.index(loop_open)
    if toks[s[lo - 1]].text != "loop":
        return src
    # declaration `let V;` somewhere before the loop
    decl = None
    for k in range(s.index(first_open), lo):
        if toks[s[k]].text == "let" and toks[s[k + 1]].text == var and toks[s[k + 2]].text == ";":
            decl = (toks[s[k]].start, toks[s[k + 2]].end)
    if decl is None:
        return src
    edits = [(decl[0], decl[1], ""), (toks[s[ci - 1]].start, toks[s[ci - 1]].end, "")]
    k = lo
    n = 0
    while k < s.index(loop_close):
        if toks[s[k]].text == var and toks[s[k + 1]].text == "=" and toks[s[k + 2]].text != "=" and toks[s[k - 1]].text in "{};":
            # find the `;` ending the assignment at depth 0, then require `break ;`
            j = k + 2
            while toks[s[j]].text != ";":
                if toks[s[j]].text in "([{":
                    j = s.index(m[s[j]])
                j += 1
            if toks[s[j + 1]].text == "break" and toks[s[j + 2]].text == ";":
                edits.append((toks[s[k]].start, toks[s[k + 1]].end, "return"))
                edits.append((toks[s[j + 1]].start, toks[s[j + 2]].end, ""))
                n += 1
                k = j + 2
                continue
            else:
                return src      # some other use of the variable: leave the code alone
        k += 1
    if n == 0:
        return src
    log["R5d"] = log.get("R5d", 0) + n
    return _replace(src, edits)


def r5_break(src, log):
    """`break E;` -> `return E;` inside a loop that is the tail expression of the fn body
    (the body is the outermost `{}` of the text)"""
    src = r5d_assign_break(src, log)
    toks = lex(src); m = match_brackets(toks); s = sig(toks)
    # outermost body
    first_open = next(i for i in s if toks[i].text == "{")
    body_close = m[first_open]
    ls = _loops(toks, s, m, 0, len(s))
    tail = None
    for (k, o, c) in ls:
        ci = s.index(c)
        if toks[s[k]].text == "loop" and ci + 1 < len(s) and s[ci + 1] == body_close:
            tail = (k, o, c)
    if tail is None:
        return src
    k, o, c = tail
    nested = [(o2, c2) for (k2, o2, c2) in ls if o < o2 < c]
    # closures inside: `|..| {` blocks are not excluded (no break may cross a closure anyway)
    edits = []
    for kk in range(s.index(o), s.index(c)):
        t = toks[s[kk]]
        if t.kind == "ident" and t.text == "break":
            if any(o2 < s[kk] < c2 for (o2, c2) in nested):
                continue
            nxt = toks[s[kk + 1]]
            if nxt.text == ";":
                continue
            if nxt.kind == "lifetime":
                raise ExtractError("labelled break (outside R5)")
            edits.append((t.start, t.end, "return"))
    log["R5"] = log.get("R5", 0) + len(edits)
    return _replace(src, edits)


def r6_index(src, log, names=None):
    """&X[a..]  ->  X.slice_from(a)   (X a path of idents/dots)"""
    toks = lex(src); m = match_brackets(toks); s = sig(toks)
    edits = []
    for k, i in enumerate(s):
        if toks[i].text == "&" and k + 1 < len(s) and toks[s[k + 1]].kind == "ident" and toks[s[k + 1]].text != "mut":
            j = k + 1
            while j + 2 < len(s) and toks[s[j + 1]].text == "." and toks[s[j + 2]].kind == "ident":
                j += 2
            if j + 1 < len(s) and toks[s[j + 1]].text == "[":
                o = s[j + 1]; c = m[o]
                ci = s.index(c)
                if toks[s[ci - 1]].text == "." and toks[s[ci - 2]].text == ".":
                    path = src[toks[s[k + 1]].start:toks[s[j]].end]
                    a = src[toks[o].end:toks[s[ci - 2]].start].strip()
                    edits.append((toks[i].start, toks[c].end, "%s.slice_from(%s)" % (path, a)))
    log["R6"] = log.get("R6", 0) + len(edits)
    return _replace(src, edits)


def r8_constpat(src, log, consts):
    """a `const` of struct type used as a pattern, e.g. `ResolveResult::Bound(xmlns::BASE)` ->
    `ResolveResult::Bound(ns__k)` plus `ns__k == xmlns::BASE &&` at the head of the arm's guard
    (Rust's own semantics for structural-match constants)."""
    n = 0
    for cpath in consts:
        parts = [x for x in re.split(r"(::)", cpath) if x]
        flat = []
        for x in parts:
            flat.extend([":", ":"] if x == "::" else [x])
        while True:
            toks = lex(src); m = match_brackets(toks); s = sig(toks)
            hit = None
            for k in range(len(s) - len(flat) - 1):
                if toks[s[k]].text == "(" and [toks[s[k + 1 + d]].text for d in range(len(flat))] == flat \
                        and toks[s[k + 1 + len(flat)]].text == ")" and toks[s[k - 1]].kind == "ident":
                    # pattern position: an `=>` follows before any `;` at the arm level
                    j = k + 2 + len(flat)
                    guard_if = None
                    arrow = None
                    while j + 1 < len(s):
                        tj = toks[s[j]]
                        if tj.text in "([{":
                            j = s.index(m[s[j]]) + 1
                            continue
                        if tj.kind == "ident" and tj.text == "if" and guard_if is None:
                            guard_if = j
                        if tj.text == "=" and toks[s[j + 1]].text == ">":
                            arrow = j
                            break
                        if tj.text == ";":
                            break
                        j += 1
                    if arrow is None:
                        continue
                    hit = (k, guard_if, arrow)
                    break
            if hit is None:
                break
            k, guard_if, arrow = hit
            var = "ns__%d" % n
            edits = [(toks[s[k + 1]].start, toks[s[k + len(flat)]].end, var)]
            if guard_if is not None:
                edits.append((toks[s[guard_if]].end, toks[s[guard_if]].end, " %s == %s &&" % (var, cpath)))
            else:
                edits.append((toks[s[arrow]].start, toks[s[arrow]].start, "if %s == %s " % (var, cpath)))
            src = _replace(src, edits)
            n += 1
    log["R8"] = log.get("R8", 0) + n
    return src



def r15_erase_generics(src, log, names, keep_lifetimes=()):
    """`Name<..>` -> `Name` for shim types whose type/lifetime parameters are not modelled (e.g. NsReader<&[u8]>,
    BytesStart<'_>); for names in keep_lifetimes only the type arguments are erased (ElementWriter<'a, W> -> ElementWriter<'a>)."""
    toks = lex(src); s = sig(toks)
    edits = []
    for k, i in enumerate(s):
        if toks[i].kind == "ident" and toks[i].text in (set(names) | set(keep_lifetimes)) and k + 1 < len(s) and toks[s[k + 1]].text == "<" \
                and not (k > 0 and toks[s[k - 1]].kind == "ident" and toks[s[k - 1]].text in ("struct", "enum", "impl", "fn")):
            depth, j = 0, k + 1
            while j < len(s):
                tx = toks[s[j]].text
                if tx == "<":
                    depth += 1
                elif tx == ">" and toks[s[j - 1]].text != "-":
                    depth -= 1
                    if depth == 0:
                        break
                j += 1
            if toks[i].text in keep_lifetimes:
                lts = [toks[s[x]].text for x in range(k + 2, j) if toks[s[x]].kind == "lifetime"]
                edits.append((toks[s[k + 1]].start, toks[s[j]].end, ("<" + ", ".join(lts) + ">") if lts else ""))
            else:
                edits.append((toks[s[k + 1]].start, toks[s[j]].end, ""))
    log["R15"] = log.get("R15", 0) + len(edits)
    return _replace(src, edits)



def r16_mut_self(sig_text, body, log):
    """`fn f(mut self, ..) { B }` -> `fn f(self, ..) { let mut self__ = self; B[self := self__] }`
    (Verus does not support `mut self`; a by-value binding is only renamed)."""
    if not re.search(r"\(\s*mut\s+self\b", sig_text):
        return sig_text, body
    sig_text = re.sub(r"\(\s*mut\s+self\b", "(self", sig_text, count=1)
    toks = lex(body)
    edits = [(tk.start, tk.end, "self__") for tk in toks if tk.kind == "ident" and tk.text == "self"]
    body = _replace(body, edits)
    first = body.index("{")
    body = body[:first + 1] + " let mut self__ = self;" + body[first + 1:]
    log["R16"] = log.get("R16", 0) + 1
    return sig_text, body



def r17_underscore_assign(src, log):
    """`_ = E;` (destructuring assignment to the wildcard) -> `let _ = E;`"""
    toks = lex(src); s = sig(toks)
    edits = []
    for k, i in enumerate(s):
        if toks[i].kind == "ident" and toks[i].text == "_" and k + 1 < len(s) and toks[s[k + 1]].text == "=" \
                and toks[s[k + 2]].text not in ("=", ">") and (k == 0 or toks[s[k - 1]].text in "{};"):
            edits.append((toks[i].start, toks[i].end, "let _"))
    log["R17"] = log.get("R17", 0) + len(edits)
    return _replace(src, edits)



def r18_try_for_each(src, log):
    """`E.try_for_each(|p| B)?`  ->  `{ let mut it__k = E; loop { match it__k.next() { Some(p) => { (B)?; } None => { break; } } } }`
    (Iterator::try_for_each = call the closure for each item, stop at the first Err; followed by `?` the Err is
    propagated exactly as `(B)?` does)."""
    n = 0
    while True:
        toks = lex(src); m = match_brackets(toks); s = sig(toks)
        hit = None
        for k, i in enumerate(s):
            if toks[i].text == "." and k + 2 < len(s) and toks[s[k + 1]].text == "try_for_each" and toks[s[k + 2]].text == "(":
                o = s[k + 2]; c = m[o]; ck = s.index(c)
                if ck + 1 >= len(s) or toks[s[ck + 1]].text != "?":
                    raise ExtractError("try_for_each not followed by `?` (outside R18)")
                cl = _closure_spans(toks, s, m, k + 2, ck)
                if not cl or cl[0][0] != k + 3:
                    raise ExtractError("try_for_each argument is not a closure literal (outside R18)")
                b1, b2, bs, be = cl[0]
                params = src[toks[s[b1]].end:toks[s[b2]].start].strip()
                body = src[toks[s[bs]].start:toks[s[be]].end]
                # receiver: walk back to an expression boundary
                j = k - 1
                while j >= 0:
                    tj = toks[s[j]]
                    if tj.text == "}" and toks[s[j + 1]].text not in (".", "?"):
                        break
                    if tj.text in ")]}":
                        j = s.index(m[s[j]]) - 1
                        continue
                    if tj.text in "({[;,":
                        break
                    if tj.text == "=" or (tj.text == ">" and toks[s[j - 1]].text == "="):
                        break
                    if tj.kind == "ident" and tj.text in ("return", "in", "let", "match", "if"):
                        break
                    j -= 1
                r0 = j + 1
                recv = src[toks[s[r0]].start:toks[i].start].strip()
                hit = (toks[s[r0]].start, toks[s[ck + 1]].end,
                       "{ let mut it__%d = %s; loop /*@try_for_each*/ { match it__%d.next() { Some(%s) => { (%s)?; } None => { break; } } } }"
                       % (n, recv, n, params, body))
                break
        if hit is None:
            break
        src = _replace(src, [hit])
        n += 1
    log["R18"] = log.get("R18", 0) + n
    return src



def r19_any_all(src, log, kind="vec"):
    """`X.iter().any(|p| B)` -> `{ let s__k = &X; let mut i__k: usize = 0; let mut r__k = false;
          while i__k < s__k.len() { let p = &s__k[i__k]; if B { r__k = true; break; } i__k += 1; } r__k }`
    (`all`: r = true, `if !(B) { r = false; break; }`).  std's `any`/`all` over a slice iterator visit the elements in
    order and stop at the first hit; kind=slice uses `let s__k = X;` for a receiver that already is a `&[T]`."""
    n = 0
    while True:
        toks = lex(src); m = match_brackets(toks); s = sig(toks)
        hit = None
        for k, i in enumerate(s):
            if toks[i].text == "." and k + 6 < len(s) and toks[s[k + 1]].text == "iter" and toks[s[k + 2]].text == "(" \
                    and toks[s[k + 3]].text == ")" and toks[s[k + 4]].text == "." and toks[s[k + 5]].text in ("any", "all") \
                    and toks[s[k + 6]].text == "(":
                which = toks[s[k + 5]].text
                o = s[k + 6]; c = m[o]; ck = s.index(c)
                cl = _closure_spans(toks, s, m, k + 6, ck)
                if not cl or cl[0][0] != k + 7:
                    continue
                b1, b2, bs, be = cl[0]
                params = src[toks[s[b1]].end:toks[s[b2]].start].strip()
                body = src[toks[s[bs]].start:toks[s[be]].end]
                j = k - 1
                while j >= 0:
                    tj = toks[s[j]]
                    if tj.text == "}" and toks[s[j + 1]].text not in (".", "?"):
                        break
                    if tj.text in ")]}":
                        j = s.index(m[s[j]]) - 1
                        continue
                    if tj.text in "({[;,!" or tj.text == "=" or (tj.text == ">" and toks[s[j - 1]].text == "=") or \
                            (tj.text in "&|" ) or (tj.kind == "ident" and tj.text in ("return", "in", "let", "match", "if")):
                        break
                    j -= 1
                r0 = j + 1
                recv = src[toks[s[r0]].start:toks[i].start].strip()
                bind = ("let s__%d = &%s;" if kind == "vec" else "let s__%d = %s;") % (n, recv)
                if which == "any":
                    new = ("{ %s let mut i__%d: usize = 0; let mut r__%d = false; while i__%d < s__%d.len() /*@any*/ { let %s = &s__%d[i__%d]; "
                           "if %s { r__%d = true; break; } i__%d += 1; } r__%d }") % (bind, n, n, n, n, params, n, n, body, n, n, n)
                else:
                    new = ("{ %s let mut i__%d: usize = 0; let mut r__%d = true; while i__%d < s__%d.len() /*@all*/ { let %s = &s__%d[i__%d]; "
                           "if !(%s) { r__%d = false; break; } i__%d += 1; } r__%d }") % (bind, n, n, n, n, params, n, n, body, n, n, n)
                hit = (toks[s[r0]].start, toks[c].end, new)
                break
        if hit is None:
            break
        src = _replace(src, [hit])
        n += 1
    log["R19"] = log.get("R19", 0) + n
    return src



def find_simple_const(src: str, name: str):
    """`const NAME: T = EXPR;` (EXPR without a block) -> (line, EXPR) or None"""
    try:
        a, b = find_item(src, "const", name)
    except ExtractError:
        return None
    text = src[a:b]
    mm = re.search(r"const\s+%s\s*:\s*([^=]+)=\s*([^;]+);" % re.escape(name), text, re.S)
    if not mm or "{" in mm.group(2):
        return None
    return _line_of(src, a), " ".join(mm.group(2).split())


def r14b_const_subst(src, log, cmap):
    """R14b: every use of an (auto-resolved) module-level const is replaced by its initializer expression - what the compiler
    does with a `const` item; a single-token initializer (a literal) is substituted as it is (so that it also works in pattern
    position and for the byte-string rules), anything else in parentheses."""
    n = 0
    for _ in range(4):          # an initializer may name another const
        toks = lex(src); s = sig(toks)
        edits = []
        for k, i in enumerate(s):
            t = toks[i]
            if t.kind == "ident" and t.text in cmap:
                prev = toks[s[k - 1]].text if k > 0 else ""
                nxt = toks[s[k + 1]].text if k + 1 < len(s) else ""
                if prev in (".", ":") or nxt == ":" or prev in ("const", "static", "let"):
                    continue
                init = cmap[t.text]
                single = len([x for x in lex(init) if x.kind not in ("ws", "comment")]) == 1
                edits.append((t.start, t.end, init if single else "(" + init + ")"))
        if not edits:
            break
        src = _replace(src, edits)
        n += len(edits)
    if n:
        log["R14b.const_subst"] = {"uses": n, "consts": sorted(cmap)}
    return src


def find_simple_method(src: str, name: str):
    """a helper `fn name(&self) -> T { EXPR }` (only a self parameter, body = one expression without statements):
    returns EXPR or None"""
    try:
        item_start, fn_kw, bo, bc, toks = find_fn(src, name, None, 1)
    except ExtractError:
        return None
    s = sig(toks)
    k = s.index(fn_kw)
    # parameter list
    j = k + 2
    while toks[s[j]].text != "(":
        if toks[s[j]].text == "<":
            return None
        j += 1
    m = match_brackets(toks)
    close = s.index(m[s[j]])
    params = [toks[x].text for x in s[j + 1:close]]
    if params not in (["&", "self"], ["self"]):
        return None
    body = src[toks[bo].end:toks[bc].start]
    btoks = [x for x in lex(body) if x.kind not in ("ws", "comment")]
    if any(x.text == ";" for x in btoks) or any(x.kind == "ident" and x.text in ("let", "return", "loop", "while", "for") for x in btoks):
        return None
    expr = " ".join(l.strip() for l in body.strip().split("\n") if not l.strip().startswith("//"))
    return _subst_self_type(src, toks[fn_kw].start, expr)


def _subst_self_type(src: str, fn_off: int, expr: str) -> str:
    """`Self` inside a helper refers to the helper's own impl type: replace it by that type's name when the helper
    is inside an impl block (the last `impl ... {` whose braces enclose fn_off)."""
    toks = lex(src); m = match_brackets(toks)
    hdr = None
    for mm in re.finditer(r"\bimpl\b([^{;]*)\{", src):
        if mm.end() <= fn_off:
            bo = next((i for i, t in enumerate(toks) if t.start == mm.end() - 1), None)
            if bo is not None and bo in m and toks[m[bo]].start > fn_off:
                hdr = mm.group(1)
    if hdr is None:
        return expr
    ty = hdr.split(" for ")[-1].strip()
    ty = re.sub(r"^<[^>]*>\s*", "", ty)            # impl<T> Foo<T>  ->  Foo<T>
    tyname = re.match(r"[\w:]+", ty)
    if not tyname:
        return expr
    return "".join(tyname.group(0) if (x.kind == "ident" and x.text == "Self") else x.text for x in lex(expr))


def find_simple_fn(src: str, name: str):
    """a helper `fn name(a: T, b: U) -> R { EXPR }` (plain identifier parameters, body = one expression): (params, EXPR) or None"""
    try:
        item_start, fn_kw, bo, bc, toks = find_fn(src, name, None, 1)
    except ExtractError:
        return None
    s = sig(toks); m = match_brackets(toks)
    k = s.index(fn_kw)
    j = k + 2
    while toks[s[j]].text != "(":
        if toks[s[j]].text == "<":
            return None
        j += 1
    close = s.index(m[s[j]])
    ptext = src[toks[s[j]].end:toks[s[close]].start]
    params = []
    for part in [x.strip() for x in ptext.split(",") if x.strip()]:
        mm = re.match(r"^(?:mut\s+)?([a-z_]\w*)\s*:", part)
        if not mm or "self" in part:
            return None
        params.append(mm.group(1))
    body = src[toks[bo].end:toks[bc].start]
    # log statements of the helper are dropped exactly as rule R2 drops them in extracted bodies
    try:
        body = r2_logs("{" + body + "}", {})[1:-1]
    except ExtractError:
        return None
    btoks = [x for x in lex(body) if x.kind not in ("ws", "comment")]
    if any(x.kind == "ident" and x.text in ("let", "return", "loop", "while", "for") for x in btoks):
        return None
    semis = [x for x in btoks if x.text == ";"]
    if semis and not (len(semis) == 1 and btoks and btoks[-1].text == ";"):
        return None
    expr = " ".join(l.strip() for l in body.strip().split("\n") if l.strip() and not l.strip().startswith("//"))
    if semis:
        # a unit helper whose body is one expression statement `E;`  ->  inlined as the block `{ E; }`
        expr = "{ " + expr + " }"
    expr = _subst_self_type(src, toks[fn_kw].start, expr)
    return params, expr


def r20b_inline_fns(src, log, fn_map):
    """R20 for free functions: `name(A, B)` -> `(EXPR[a := (A), b := (B)])`"""
    n = 0
    for name, val in fn_map.items():
        params, expr = val[0], val[1]
        assoc = len(val) > 2 and val[2]
        while True:
            toks = lex(src); m = match_brackets(toks); s = sig(toks)
            hit = None
            for k, i in enumerate(s):
                start_tok = i
                if assoc:
                    # `Self::name(` / `Type::name(` (associated helper function without self parameter)
                    ok = toks[i].kind == "ident" and toks[i].text == name and k + 1 < len(s) and toks[s[k + 1]].text == "(" \
                        and k >= 3 and toks[s[k - 1]].text == ":" and toks[s[k - 2]].text == ":" and toks[s[k - 3]].kind == "ident" \
                        and (k < 4 or toks[s[k - 4]].text != ":")
                    if ok:
                        start_tok = s[k - 3]
                else:
                    ok = toks[i].kind == "ident" and toks[i].text == name and k + 1 < len(s) and toks[s[k + 1]].text == "(" \
                        and (k == 0 or toks[s[k - 1]].text not in (".", ":", "fn"))
                if ok:
                    c = m[s[k + 1]]
                    args, depth, cur = [], 0, toks[s[k + 1]].end
                    for x in range(s[k + 1] + 1, c):
                        tx = toks[x]
                        if tx.kind == "punct" and tx.text in "([{":
                            depth += 1
                        elif tx.kind == "punct" and tx.text in ")]}":
                            depth -= 1
                        elif tx.kind == "punct" and tx.text == "," and depth == 0:
                            args.append(src[cur:tx.start].strip()); cur = tx.end
                    last = src[cur:toks[c].start].strip()
                    if last:
                        args.append(last)
                    if len(args) != len(params):
                        continue
                    sub = dict(zip(params, args))
                    def _arg(a_):
                        # a single-token argument (a literal, an identifier) is substituted as it is, anything else in parentheses
                        return a_ if len([y for y in lex(a_) if y.kind not in ("ws", "comment")]) == 1 else "(" + a_ + ")"
                    e2 = "".join(_arg(sub[x.text]) if (x.kind == "ident" and x.text in sub) else x.text for x in lex(expr))
                    hit = (toks[start_tok].start, toks[c].end, "(" + e2 + ")")
                    break
            if hit is None:
                break
            src = _replace(src, [hit])
            n += 1
    if n:
        log["R20"] = log.get("R20", 0) + n
        log.setdefault("R20.inlined", []).extend(sorted(fn_map))
    return src



def r20_inline(src, log, inline_map):
    """R20: `RECV.name()` -> `(EXPR[self := RECV])` for helper methods found by find_simple_method (pure single-expression
    helpers introduced by refactoring); RECV must be a path of identifiers and field accesses."""
    n = 0
    for name, expr in inline_map.items():
        while True:
            toks = lex(src); s = sig(toks)
            hit = None
            for k, i in enumerate(s):
                if toks[i].text == "." and k + 3 < len(s) and toks[s[k + 1]].text == name and toks[s[k + 2]].text == "(" and toks[s[k + 3]].text == ")":
                    j = k - 1
                    KW = ("if", "match", "return", "let", "in", "while", "else", "mut", "ref", "move", "as")
                    while j >= 0 and ((toks[s[j]].kind == "ident" and toks[s[j]].text not in KW) or toks[s[j]].text == "."):
                        j -= 1
                    r0 = j + 1
                    if r0 > k - 1:
                        continue
                    recv = src[toks[s[r0]].start:toks[i].start].strip()
                    etoks = lex(expr)
                    e2 = "".join(recv if (x.kind == "ident" and x.text == "self") else x.text for x in etoks)
                    hit = (toks[s[r0]].start, toks[s[k + 3]].end, "(" + e2 + ")")
                    break
            if hit is None:
                break
            src = _replace(src, [hit])
            n += 1
    if n:
        log["R20"] = log.get("R20", 0) + n
        log["R20.inlined"] = sorted(inline_map)
    return src



def r21_streq(src, log):
    """`E == "lit"` (string comparison against a literal, e.g. Cow<str> == &str) -> `str_eq(&(E), "lit")`"""
    toks = lex(src); m = match_brackets(toks); s = sig(toks)
    edits = []
    for k, i in enumerate(s):
        t0 = toks[i]
        neg = False
        is_eq = t0.kind == "str" and t0.text.startswith('"') and k >= 3 and toks[s[k - 1]].text == "=" and toks[s[k - 2]].text == "=" \
            and toks[s[k - 3]].text not in "=!<>"
        is_ne = t0.kind == "str" and t0.text.startswith('"') and k >= 3 and toks[s[k - 1]].text == "=" and toks[s[k - 2]].text == "!" \
            and toks[s[k - 3]].text not in "=!<>"
        if is_eq or is_ne:
            neg = is_ne
            j = k - 3
            while j >= 0:
                tj = toks[s[j]]
                if tj.text in ")]}":
                    j = s.index(m[s[j]]) - 1
                    continue
                if tj.text in "({[;,|" or (tj.text == "&" and toks[s[j - 1]].text == "&") or \
                        (tj.kind == "ident" and tj.text in ("if", "return", "let", "match")) or \
                        (tj.text == ">" and toks[s[j - 1]].text == "=") or (tj.text == "=" and toks[s[j - 1]].text not in "=!<>"):
                    break
                j -= 1
            a = toks[s[j + 1]].start
            lhs = src[a:toks[s[k - 2]].start].strip()
            edits.append((a, t0.end, "%sstr_eq(&(%s), %s)" % ("!" if neg else "", lhs, t0.text)))
    log["R21"] = log.get("R21", 0) + len(edits)
    return _replace(src, edits)



def r22_rpc(src, log):
    """`E.rpc::<Op<..>, _>(CLOSURE)` -> `E.rpc_Op()`: the request-building closure is dropped (what may be built is the
    business of the capability gates, unit a5); the operation's identity is kept in the shim method's name."""
    n = 0
    while True:
        toks = lex(src); m = match_brackets(toks); s = sig(toks)
        hit = None
        for k, i in enumerate(s):
            if toks[i].text == "." and k + 5 < len(s) and toks[s[k + 1]].text == "rpc" and toks[s[k + 2]].text == ":" \
                    and toks[s[k + 3]].text == ":" and toks[s[k + 4]].text == "<" and toks[s[k + 5]].kind == "ident":
                op = toks[s[k + 5]].text
                j = k + 5
                depth = 1
                while depth and j + 1 < len(s):
                    j += 1
                    if toks[s[j]].text == "<":
                        depth += 1
                    elif toks[s[j]].text == ">" and toks[s[j - 1]].text != "-":
                        depth -= 1
                if toks[s[j + 1]].text != "(":
                    continue
                c = m[s[j + 1]]
                hit = (toks[s[k + 1]].start, toks[c].end, "rpc_%s()" % op)
                break
        if hit is None:
            break
        src = _replace(src, [hit])
        n += 1
    log["R22"] = log.get("R22", 0) + n
    return src



def r24_guarded_try(src, log, names):
    """`RECV.name(ARGS)?`  ->  `(match RECV.name(ARGS) { Ok(v__) => v__, Err(e__) => { name_error_propagated(); return Err(From::from(e__)) } })`
    for the listed method names: the `?` is spelled out so that propagating this particular error is a visible step (the shim
    `<name>_error_propagated()` carries the obligation).  Fires only where the code applies `?` directly to such a call."""
    n = 0
    for name in names:
        while True:
            toks = lex(src); m = match_brackets(toks); s = sig(toks)
            hit = None
            for k, i in enumerate(s):
                if toks[i].text == "." and k + 2 < len(s) and toks[s[k + 1]].text == name and toks[s[k + 2]].text == "(":
                    c = m[s[k + 2]]; ck = s.index(c)
                    if ck + 1 < len(s) and toks[s[ck + 1]].text == "?":
                        j = k - 1
                        while j >= 0 and (toks[s[j]].kind == "ident" or toks[s[j]].text == "."):
                            j -= 1
                        r0 = j + 1
                        expr = src[toks[s[r0]].start:toks[c].end]
                        hit = (toks[s[r0]].start, toks[s[ck + 1]].end,
                               "(match %s { Ok(v__) => v__, Err(e__) => { %s_error_propagated(); return Err(From::from(e__)) } })" % (expr, name))
                        break
            if hit is None:
                break
            src = _replace(src, [hit])
            n += 1
    log["R24"] = log.get("R24", 0) + n
    return src



def r25_map_collect(src, log):
    """`RECV.into_iter().map(|P| BODY).collect()` ->
       `{ let mut out__k = Collector::new(); let mut it__k = RECV.into_iter(); loop { match it__k.next() { Some(P) => { out__k.push(BODY); } None => { break; } } } out__k.finish() }`
    (Iterator::map + collect over a sequential iterator: the closure is applied to the items in order and the results are
    collected; needed because Verus has no closures that capture `&mut`)."""
    n = 0
    while True:
        toks = lex(src); m = match_brackets(toks); s = sig(toks)
        hit = None
        for k, i in enumerate(s):
            if toks[i].text == "." and k + 6 < len(s) and toks[s[k + 1]].text == "into_iter" and toks[s[k + 2]].text == "(" and toks[s[k + 3]].text == ")" \
                    and toks[s[k + 4]].text == "." and toks[s[k + 5]].text == "map" and toks[s[k + 6]].text == "(":
                o = s[k + 6]; c = m[o]; ck = s.index(c)
                if not (ck + 4 < len(s) and toks[s[ck + 1]].text == "." and toks[s[ck + 2]].text == "collect" and toks[s[ck + 3]].text == "(" and toks[s[ck + 4]].text == ")"):
                    continue
                cl = _closure_spans(toks, s, m, k + 6, ck)
                if not cl or cl[0][0] != k + 7:
                    continue
                b1, b2, bs, be = cl[0]
                params = src[toks[s[b1]].end:toks[s[b2]].start].strip()
                body = src[toks[s[bs]].start:toks[s[be]].end]
                j = k - 1
                while j >= 0 and (toks[s[j]].kind == "ident" or toks[s[j]].text == "."):
                    if toks[s[j]].kind == "ident" and toks[s[j]].text in ("let", "return", "mut", "in", "if", "match"):
                        break
                    j -= 1
                r0 = j + 1
                recv = src[toks[s[r0]].start:toks[i].start].strip()
                new = ("{ let mut out__%d = Collector::new(); let mut it__%d = %s.into_iter(); loop /*@map_collect*/ { match it__%d.next() { Some(%s) => { out__%d.push(%s); } None => { break; } } } out__%d.finish() }"
                       % (n, n, recv, n, params, n, body, n))
                hit = (toks[s[r0]].start, toks[s[ck + 4]].end, new)
                break
        if hit is None:
            break
        src = _replace(src, [hit])
        n += 1
    log["R25"] = log.get("R25", 0) + n
    return src



def _strip_parens_around_bytelit(src):
    return re.sub(r'([=!]=\s*)\(\s*(b"(?:[^"\\]|\\.)*")\s*\)', r'\1\2', src)


def r11_bytelits(src, log, table):
    """b"lit" -> blit_<n>()  ; table collects the generated external_body functions.
    `E == b"lit"` (slice equality against a literal) -> `bytes_eq(E, blit_<n>())`, where the shim
    bytes_eq(a, b) ensures r == (a@ == b@): std's PartialEq for slices (same length, elementwise equal)."""
    src = _strip_parens_around_bytelit(src)
    toks = lex(src); m = match_brackets(toks); s = sig(toks)
    edits = []
    neq = 0
    for k, i in enumerate(s):
        t = toks[i]
        if t.kind == "str" and t.text.startswith('b"'):
            val = byte_string_value(t.text)
            key = t.text
            if key not in table:
                table[key] = ("blit_%d" % len(table), val)
            call = table[key][0] + "()"
            if k >= 2 and toks[s[k - 1]].text == "=" and toks[s[k - 2]].text == "=" and toks[s[k - 3]].text not in "=!<>":
                # walk back over the left operand to the nearest boundary at depth 0
                j = k - 3
                while j >= 0:
                    tj = toks[s[j]]
                    if tj.text in ")]}":
                        j = s.index(m[s[j]]) - 1
                        continue
                    if tj.text in "({[;,|" or (tj.text == "&" and toks[s[j - 1]].text == "&") or \
                            (tj.kind == "ident" and tj.text in ("if", "return", "let", "match")) or \
                            (tj.text == ">" and toks[s[j - 1]].text == "=") or (tj.text == "=" and toks[s[j - 1]].text not in "=!<>"):
                        break
                    j -= 1
                lhs_a = toks[s[j + 1]].start
                lhs = src[lhs_a:toks[s[k - 2]].start].strip()
                edits.append((lhs_a, t.end, "bytes_eq(%s, %s)" % (lhs, call)))
                neq += 1
            else:
                edits.append((t.start, t.end, call))
    log["R11"] = log.get("R11", 0) + len(edits)
    if neq:
        log["R11.eq"] = log.get("R11.eq", 0) + neq
    return _replace(src, edits)


def r12_for(src, log, into_iter=""):
    """for P in E { B }  ->  { let mut it__ = E; loop { match it__.next() { Some(P) => { B } None => break } } }
    applied only where the unit asks for it (iterators given by shims)."""
    toks = lex(src); m = match_brackets(toks); s = sig(toks)
    edits = []
    n = 0
    for k, i in enumerate(s):
        if toks[i].kind == "ident" and toks[i].text == "for" and toks[s[k - 1]].text in "{};":
            j = k + 1
            depth_guard = 0
            while not (toks[s[j]].kind == "ident" and toks[s[j]].text == "in"):
                if toks[s[j]].text in "([{":
                    j = s.index(m[s[j]])
                j += 1
            pat = src[toks[s[k + 1]].start:toks[s[j]].start].strip()
            e0 = j + 1
            j = e0
            while toks[s[j]].text != "{":
                if toks[s[j]].text in "([":
                    j = s.index(m[s[j]])
                j += 1
            expr = src[toks[s[e0]].start:toks[s[j]].start].strip()
            o = s[j]; c = m[o]
            edits.append((toks[i].start, toks[o].end,
                          "{ let mut it__%d = %s%s; loop /*@for*/ { match it__%d.next() { Some(%s) => {"
                          % (n, ("(" + expr + ")") if into_iter else expr, into_iter, n, pat)))
            edits.append((toks[c].start, toks[c].end, "} None => { break; } } } }"))
            n += 1
    log["R12"] = log.get("R12", 0) + n
    return _replace(src, edits)


def r13_retname(sigtext: str, log, name="res"):
    """fn f(..) -> T   =>   fn f(..) -> (res: T)"""
    toks = lex(sigtext); m = match_brackets(toks); s = sig(toks)
    # find the parameter list: first `(` after `fn name` (skipping generics is unnecessary: `<` is not a bracket here,
    # and generic params contain no `(` in the functions we extract; Fn(..) bounds would raise below)
    k = next(k for k, i in enumerate(s) if toks[i].text == "fn")
    j = k + 2
    while toks[s[j]].text != "(":
        j += 1
    close = s.index(m[s[j]])
    if close + 2 < len(s) and toks[s[close + 1]].text == "-" and toks[s[close + 2]].text == ">":
        a = toks[s[close + 3]].start
        # return type runs to `where` or end
        b = len(sigtext.rstrip())
        for kk in range(close + 3, len(s)):
            if toks[s[kk]].kind == "ident" and toks[s[kk]].text == "where":
                b = toks[s[kk]].start
                break
        ty = sigtext[a:b].strip()
        log["R13"] = log.get("R13", 0) + 1
        return _replace(sigtext, [(a, b, "(%s: %s) " % (name, ty))])
    return sigtext


def r14_constcall(src, log, consts):
    """NAME (an extracted const of reference type) -> NAME_()"""
    toks = lex(src); s = sig(toks)
    edits = []
    for k, i in enumerate(s):
        t = toks[i]
        if t.kind == "ident" and t.text in consts:
            prev = toks[s[k - 1]].text if k else ""
            nxt = toks[s[k + 1]].text if k + 1 < len(s) else ""
            if prev == ":" or nxt == ":" and k + 2 < len(s) and toks[s[k + 2]].text == ":":
                continue
            edits.append((t.start, t.end, t.text + "_()"))
    log["R14"] = log.get("R14", 0) + len(edits)
    return _replace(src, edits)


def _closure_spans(toks, s, m, lo, hi):
    """closure literals |args| body  in s-index range; returns list of (bar1_k, bar2_k, body_start_k, body_end_k)"""
    out = []
    k = lo
    while k < hi:
        t = toks[s[k]]
        if t.text == "|" and t.kind == "punct":
            prev = toks[s[k - 1]] if k > 0 else None
            if prev is not None and (prev.text in "(,=" or (prev.kind == "ident" and prev.text in ("move", "return"))):
                # find closing bar
                if toks[s[k + 1]].text == "|":
                    b2 = k + 1
                else:
                    j = k + 1
                    while toks[s[j]].text != "|":
                        if toks[s[j]].text in "([{":
                            j = s.index(m[s[j]])
                        j += 1
                    b2 = j
                bs = b2 + 1
                if toks[s[bs]].text == "{":
                    be = s.index(m[s[bs]])
                else:
                    # expression body: up to `,` or `)` at depth 0
                    j = bs
                    while toks[s[j]].text not in ",)":
                        if toks[s[j]].text in "([{":
                            j = s.index(m[s[j]])
                        j += 1
                    be = j - 1
                out.append((k, b2, bs, be))
                k = b2 + 1
                continue
        k += 1
    return out


def r7_combinators(src, log):
    """closure-literal uses of Option/Result/bool combinators -> the `match` of their std definition.

    X.map(|p| B)            -> (match X { Ok(p) => Ok(B), Err(e__) => Err(e__) })      [Result, kind from unit]
    X.ok_or_else(|| E)      -> (match X { Some(v__) => Ok(v__), None => Err(E) })
    X.or_else(|| E)         -> (match X { Some(v__) => Some(v__), None => E })          [Option]
    C.then(|| E)            -> (if C { Some(E) } else { None })
    X.map_err(|p| B)        -> (match X { Ok(v__) => Ok(v__), Err(p) => Err(B) })
    X.ok_or(E)              -> (match X { Some(v__) => Ok(v__), None => Err(E) })       [E evaluated eagerly: only
                                                                                        fired when E is a path/ctor call]
    Only *method-chain tails* are handled: X is everything from the start of the expression statement
    (after `=`, `return`, `=>`, `{`, `;`, `(`) up to the `.`; applied innermost-first, repeatedly.
    Which receiver kind (Option vs Result for `.map`) comes from the unit directive `r7map=option|result`.
    """
    raise ExtractError("R7 is applied through r7_apply")


def r7_apply(src, log, map_kind="result", path_map_kind="result", map_or_kind="option"):
    changed = True
    guard = 0
    while changed:
        changed = False
        guard += 1
        if guard > 50:
            raise ExtractError("R7 did not terminate")
        toks = lex(src); m = match_brackets(toks); s = sig(toks)
        for k, i in enumerate(s):
            t = toks[i]
            if t.text == "." and k + 2 < len(s) and toks[s[k + 1]].kind == "ident" and toks[s[k + 2]].text == "(":
                meth = toks[s[k + 1]].text
                if meth == "ok" and toks[s[k + 3]].text == ")":
                    # Result::ok():  (match X { Ok(v) => Some(v), Err(_) => None })  -- only at the end of a chain already
                    # rewritten by R7 (receiver is a parenthesised match), so plain `.ok()` calls elsewhere are untouched
                    if toks[s[k - 1]].text != ")":
                        continue
                    r0 = s.index(m[s[k - 1]])
                    recv = src[toks[s[r0]].start:t.start].strip()
                    if not recv.startswith("(match"):
                        continue
                    src = _replace(src, [(toks[s[r0]].start, toks[s[k + 3]].end, "(match %s { Ok(v__) => Some(v__), Err(_) => None })" % recv)])
                    log["R7"] = log.get("R7", 0) + 1
                    log.setdefault("R7.fired", []).append("ok")
                    changed = True
                    break
                if meth == "map_or_else":
                    # Option::map_or_else(|| D, |p| B)  ->  (match X { Some(p) => B, None => D })   (Result: Ok(p) / Err(e) with |e| D)
                    o2 = s[k + 2]; c2 = m[o2]; ck2 = s.index(c2)
                    cl_ = _closure_spans(toks, s, m, k + 2, ck2)
                    if len(cl_) != 2:
                        continue
                    (a1, a2, as_, ae), (b1, b2, bs_, be) = cl_
                    dpar = src[toks[s[a1]].end:toks[s[a2]].start].strip()
                    dbody = src[toks[s[as_]].start:toks[s[ae]].end]
                    bpar = src[toks[s[b1]].end:toks[s[b2]].start].strip()
                    bbody = src[toks[s[bs_]].start:toks[s[be]].end]
                    j = k - 1
                    while j >= 0:
                        if toks[s[j]].text == ")":
                            j = s.index(m[s[j]]) - 1
                            continue
                        if toks[s[j]].kind == "ident" or toks[s[j]].text == ".":
                            j -= 1
                            continue
                        break
                    r0 = j + 1
                    recv = src[toks[s[r0]].start:t.start].strip()
                    if map_or_kind == "result" or dpar:
                        rep = "(match %s { Ok(%s) => %s, Err(%s) => %s })" % (recv, bpar, bbody, dpar or "_", dbody)
                    else:
                        rep = "(match %s { Some(%s) => %s, None => %s })" % (recv, bpar, bbody, dbody)
                    src = _replace(src, [(toks[s[r0]].start, toks[c2].end, rep)])
                    log["R7"] = log.get("R7", 0) + 1
                    log.setdefault("R7.fired", []).append("map_or_else")
                    changed = True
                    break
                if meth == "map_or":
                    # Option::map_or(default, path):  (match X { Some(v) => path(v), None => default })
                    o2 = s[k + 2]; c2 = m[o2]
                    inner = src[toks[o2].end:toks[c2].start]
                    parts = inner.split(",")
                    closure_form = None
                    if "|" in inner:
                        # Option::map_or(default, |p| BODY)  (closure literal as second argument)
                        ck2 = s.index(c2)
                        cl_ = _closure_spans(toks, s, m, k + 2, ck2)
                        if len(cl_) == 1:
                            b1_, b2_, bs_, be_ = cl_[0]
                            dflt = src[toks[o2].end:toks[s[b1_]].start].rstrip().rstrip(",").strip()
                            if dflt and "|" not in dflt and toks[s[be_]].end <= toks[c2].start and not src[toks[s[be_]].end:toks[c2].start].strip(", \n\t"):
                                closure_form = (dflt, src[toks[s[b1_]].end:toks[s[b2_]].start].strip(), src[toks[s[bs_]].start:toks[s[be_]].end])
                        if closure_form is None:
                            continue
                    elif len(parts) != 2 or "(" in inner:
                        continue
                    j = k - 1
                    while j >= 0:
                        if toks[s[j]].text == ")":
                            j = s.index(m[s[j]]) - 1
                            continue
                        if toks[s[j]].kind == "ident" or toks[s[j]].text == ".":
                            j -= 1
                            continue
                        break
                    r0 = j + 1
                    recv = src[toks[s[r0]].start:t.start].strip()
                    if closure_form is not None:
                        dflt, cpat, cbody = closure_form
                        if map_or_kind == "result":
                            rep = "(match %s { Ok(%s) => %s, Err(_) => %s })" % (recv, cpat, cbody, dflt)
                        else:
                            rep = "(match %s { Some(%s) => %s, None => %s })" % (recv, cpat, cbody, dflt)
                    elif map_or_kind == "result":
                        rep = "(match %s { Ok(v__) => %s(v__), Err(_) => %s })" % (recv, parts[1].strip(), parts[0].strip())
                    else:
                        rep = "(match %s { Some(v__) => %s(v__), None => %s })" % (recv, parts[1].strip(), parts[0].strip())
                    src = _replace(src, [(toks[s[r0]].start, toks[c2].end, rep)])
                    log["R7"] = log.get("R7", 0) + 1
                    log.setdefault("R7.fired", []).append("map_or")
                    changed = True
                    break
                if meth in ("or", "and") and map_kind == "result":
                    # Result::or(B) / Result::and(B) with an eagerly evaluated argument B (bound first, as Rust evaluates it)
                    o2 = s[k + 2]; c2 = m[o2]
                    argtxt = src[toks[o2].end:toks[c2].start].strip()
                    if not argtxt or "|" in argtxt:
                        continue
                    j = k - 1
                    while j >= 0:
                        if toks[s[j]].text == ")":
                            j = s.index(m[s[j]]) - 1
                            continue
                        if toks[s[j]].kind == "ident" or toks[s[j]].text == ".":
                            j -= 1
                            continue
                        break
                    r0 = j + 1
                    recv = src[toks[s[r0]].start:t.start].strip()
                    if meth == "or":
                        rep = "(match (%s, %s) { (Ok(v__), _) => Ok(v__), (Err(_), b__) => b__ })" % (recv, argtxt)
                    else:
                        rep = "(match (%s, %s) { (Ok(_), b__) => b__, (Err(e__), _) => Err(e__) })" % (recv, argtxt)
                    src = _replace(src, [(toks[s[r0]].start, toks[c2].end, rep)])
                    log["R7"] = log.get("R7", 0) + 1
                    log.setdefault("R7.fired", []).append(meth)
                    changed = True
                    break
                if meth not in ("map", "ok_or_else", "or_else", "then", "then_some", "map_err", "ok_or", "and_then", "unwrap_or_else",
                                "is_some_and", "filter"):
                    continue
                o = s[k + 2]; c = m[o]
                ok_, ck_ = k + 2, s.index(c)
                # argument must be a closure literal (or, for ok_or, any expr)
                arg_a, arg_b = toks[o].end, toks[c].start
                arg = src[arg_a:arg_b].strip()
                is_closure = arg.startswith("|")
                if meth in ("unwrap_or_else", "map") and not is_closure and re.fullmatch(r"[A-Za-z_][\w:]*", arg):
                    transposed_p = (meth == "map" and ck_ + 4 < len(s) and toks[s[ck_ + 1]].text == "." and toks[s[ck_ + 2]].text == "transpose"
                                    and toks[s[ck_ + 3]].text == "(" and toks[s[ck_ + 4]].text == ")")
                    if meth == "unwrap_or_else" or transposed_p:
                        j = k - 1
                        while j >= 0:
                            tj = toks[s[j]]
                            if tj.text == "}" and toks[s[j + 1]].text not in (".", "?"):
                                break
                            if tj.text in ")]}":
                                j = s.index(m[s[j]]) - 1
                                continue
                            if tj.text in "({[;," or tj.text == "=" or (tj.text == ">" and toks[s[j - 1]].text == "=") or \
                                    (tj.text == ":" and toks[s[j - 1]].text != ":" and toks[s[j + 1]].text != ":") or \
                                    (tj.kind == "ident" and tj.text in ("return", "break", "in", "let", "match", "if")):
                                break
                            j -= 1
                        r0 = j + 1
                        recv = src[toks[s[r0]].start:t.start].strip()
                        if meth == "unwrap_or_else":
                            new = "(match %s { Some(v__) => v__, None => %s() })" % (recv, arg)
                            endt = c
                        else:
                            new = "(match %s { Some(v__) => (match %s(v__) { Ok(w__) => Ok(Some(w__)), Err(e__) => Err(e__) }), None => Ok(None) })" % (recv, arg)
                            endt = s[ck_ + 4]
                        src = _replace(src, [(toks[s[r0]].start, toks[endt].end, new)])
                        log["R7"] = log.get("R7", 0) + 1
                        log.setdefault("R7.fired", []).append(meth + "(path)")
                        changed = True
                        break
                if meth in ("map", "map_err") and not is_closure and re.fullmatch(r"[A-Za-z_][\w:]*", arg) and path_map_kind == "result":
                    # Result::map(path) / Result::map_err(path)
                    j = k - 1
                    while j >= 0:
                        tj = toks[s[j]]
                        if tj.text == "}" and toks[s[j + 1]].text not in (".", "?"):
                            break
                        if tj.text in ")]}":
                            j = s.index(m[s[j]]) - 1
                            continue
                        if tj.text in "({[;," or tj.text == "=" or (tj.text == ">" and toks[s[j - 1]].text == "=") or \
                                (tj.text == ":" and toks[s[j - 1]].text != ":" and toks[s[j + 1]].text != ":") or \
                                (tj.kind == "ident" and tj.text in ("return", "break", "in", "let", "match", "if")):
                            break
                        j -= 1
                    r0 = j + 1
                    recv = src[toks[s[r0]].start:t.start].strip()
                    if meth == "map":
                        rep_ = "(match %s { Ok(v__) => Ok(%s(v__)), Err(e__) => Err(e__) })" % (recv, arg)
                    else:
                        rep_ = "(match %s { Ok(v__) => Ok(v__), Err(e__) => Err(%s(e__)) })" % (recv, arg)
                    src = _replace(src, [(toks[s[r0]].start, toks[c].end, rep_)])
                    log["R7"] = log.get("R7", 0) + 1
                    log.setdefault("R7.fired", []).append(meth + "(path)")
                    changed = True
                    break
                if meth not in ("ok_or", "then_some") and not is_closure:
                    continue
                # receiver start: walk back to statement/expr boundary at same depth
                j = k - 1
                while j >= 0:
                    tj = toks[s[j]]
                    if tj.text == "}" and toks[s[j + 1]].text not in (".", "?"):
                        break      # end of a block statement: not part of the receiver
                    if tj.text in ")]}":
                        j = s.index(m[s[j]]) - 1
                        continue
                    if tj.text in "({[;,":
                        break
                    if tj.text == ":" and toks[s[j - 1]].text != ":" and toks[s[j + 1]].text != ":":
                        break      # struct-literal field initialiser / type ascription
                    if tj.text == "=" :
                        break
                    if tj.text == ">" and toks[s[j - 1]].text == "=":
                        break
                    if tj.kind == "ident" and tj.text in ("return", "break", "in", "let", "match", "if"):
                        break
                    j -= 1
                r0 = j + 1
                if r0 > k - 1:
                    continue
                recv = src[toks[s[r0]].start:t.start].strip()
                # only fire when nothing follows except another method call / `?` / terminator — i.e. chain position
                if is_closure:
                    cl = _closure_spans(toks, s, m, ok_, ck_)
                    if not cl or cl[0][0] != ok_ + 1:
                        continue
                    b1, b2, bs, be = cl[0]
                    if be != ck_ - 1 and not (toks[s[ck_ - 1]].text == "," and be == ck_ - 2):
                        continue
                    params = src[toks[s[b1]].end:toks[s[b2]].start].strip()
                    body = src[toks[s[bs]].start:toks[s[be]].end]
                else:
                    params, body = "", arg
                end_tok = c
                transposed = False
                if meth == "map" and map_kind == "option" and ck_ + 4 < len(s) and toks[s[ck_ + 1]].text == "." \
                        and toks[s[ck_ + 2]].text == "transpose" and toks[s[ck_ + 3]].text == "(" and toks[s[ck_ + 4]].text == ")":
                    # Option::map(f).transpose():  Some(x) -> f(x).map(Some),  None -> Ok(None)
                    end_tok = s[ck_ + 4]
                    transposed = True
                if meth == "then_some":
                    new = "(if %s { Some(%s) } else { None })" % (recv, arg)
                elif meth == "is_some_and":
                    new = "(match %s { Some(%s) => %s, None => false })" % (recv, params, body)
                elif meth == "filter":
                    # Option::filter(|p| B): the closure sees `&T`
                    new = "(match %s { Some(v__) => { let %s = &v__; if %s { Some(v__) } else { None } }, None => None })" % (recv, params, body)
                elif transposed:
                    new = "(match %s { Some(%s) => (match %s { Ok(v__) => Ok(Some(v__)), Err(e__) => Err(e__) }), None => Ok(None) })" % (recv, params, body)
                elif meth == "map" and map_kind == "result":
                    new = "(match %s { Ok(%s) => Ok(%s), Err(e__) => Err(e__) })" % (recv, params, body)
                elif meth == "map" and map_kind == "option":
                    new = "(match %s { Some(%s) => Some(%s), None => None })" % (recv, params, body)
                elif meth == "map_err":
                    new = "(match %s { Ok(v__) => Ok(v__), Err(%s) => Err(%s) })" % (recv, params, body)
                elif meth == "and_then" and map_kind == "option":
                    new = "(match %s { Some(%s) => %s, None => None })" % (recv, params, body)
                elif meth == "and_then":
                    new = "(match %s { Ok(%s) => %s, Err(e__) => Err(e__) })" % (recv, params, body)
                elif meth == "ok_or_else":
                    if params:
                        continue
                    new = "(match %s { Some(v__) => Ok(v__), None => Err(%s) })" % (recv, body)
                elif meth == "ok_or":
                    new = "(match %s { Some(v__) => Ok(v__), None => Err(%s) })" % (recv, body)
                elif meth == "or_else":
                    if params:
                        continue
                    new = "(match %s { Some(v__) => Some(v__), None => %s })" % (recv, body)
                elif meth == "unwrap_or_else":
                    if params:
                        # Result::unwrap_or_else(|e| B)
                        new = "(match %s { Ok(v__) => v__, Err(%s) => %s })" % (recv, params, body)
                    else:
                        new = "(match %s { Some(v__) => v__, None => %s })" % (recv, body)
                elif meth == "then":
                    if params:
                        continue
                    new = "(if %s { Some(%s) } else { None })" % (recv, body)
                else:
                    continue
                src = _replace(src, [(toks[s[r0]].start, toks[end_tok].end, new)])
                log["R7"] = log.get("R7", 0) + 1
                log.setdefault("R7.fired", []).append(meth + ("+transpose" if transposed else ""))
                changed = True
                break
    return src


def _path_call_at(toks, s, k, path):
    """does the significant-token index k start the path `a::b::c` followed by `(`?  returns index (in s) of `(` or None"""
    j = k
    for n, seg in enumerate(path):
        if j >= len(s) or toks[s[j]].text != seg:
            return None
        j += 1
        if n + 1 < len(path):
            if j + 1 >= len(s) or toks[s[j]].text != ":" or toks[s[j + 1]].text != ":":
                return None
            j += 2
    if j < len(s) and toks[s[j]].text == "(":
        return j
    return None


def r26_spawn(src, log):
    """R26: `tokio::spawn(async move BLOCK)` -> `tokio_spawn_(move || BLOCK)`: the spawned task becomes a closure that the
    shim runs to completion at the spawn point (sequential model of a task that is later joined through its JoinHandle;
    the concurrency between the task and the spawner is dropped - stated in DESIGN.md)."""
    n = 0
    while True:
        toks = lex(src); m = match_brackets(toks); s = sig(toks)
        hit = None
        for k, i in enumerate(s):
            if k > 0 and toks[s[k - 1]].text in (":", "."):
                continue
            po = _path_call_at(toks, s, k, ["tokio", "spawn"])
            if po is None:
                continue
            if toks[s[po + 1]].text != "async":
                continue
            j = po + 2
            mv = ""
            if toks[s[j]].text == "move":
                mv = "move "; j += 1
            if toks[s[j]].text != "{":
                continue
            hit = (toks[i].start, toks[s[j]].start, "tokio_spawn_(" + mv + "|| ")
            break
        if hit is None:
            break
        src = _replace(src, [hit])
        n += 1
    log["R26"] = log.get("R26", 0) + n
    return src


def r27_block_in_place(src, log):
    """R27: `tokio::task::block_in_place(|| BODY)` -> `(BODY)`: block_in_place runs the closure on the current thread and
    returns its value; the closure literal is invoked exactly once, immediately."""
    n = 0
    while True:
        toks = lex(src); m = match_brackets(toks); s = sig(toks)
        hit = None
        for k, i in enumerate(s):
            if k > 0 and toks[s[k - 1]].text in (":", "."):
                continue
            po = _path_call_at(toks, s, k, ["tokio", "task", "block_in_place"])
            if po is None:
                continue
            if toks[s[po + 1]].text != "|" or toks[s[po + 2]].text != "|":
                continue
            c = m[s[po]]
            body = src[toks[s[po + 2]].end:toks[c].start].strip()
            if body.endswith(","):
                body = body[:-1].rstrip()
            hit = (toks[i].start, toks[c].end, "(" + body + ")")
            break
        if hit is None:
            break
        src = _replace(src, [hit])
        n += 1
    log["R27"] = log.get("R27", 0) + n
    return src


def r28_flat_find(src, log):
    """R28: `RECV.iter().filter_map(|P| F).flatten().find(|Q| G)` ->
       { let mut found__k = None; let mut ot__k = RECV.iter();
         'search__k: loop { match ot__k.next() { Some(P) => { match (F) { Some(inner__k) => { let mut in__k = inner__k;
             loop { match in__k.next() { Some(q__k) => { let Q' = ..; if (G) { found__k = Some(q__k); break 'search__k; } } None => { break; } } } }
           None => {} } } None => { break; } } }
         found__k }
    std definitions: filter_map keeps the Some(..) results in order, flatten iterates each of them in order, find returns the
    first item for which the predicate holds.  `|&q|` binds q to the item, `|q|` to a reference to it."""
    n = 0
    while True:
        toks = lex(src); m = match_brackets(toks); s = sig(toks)
        hit = None
        for k, i in enumerate(s):
            def at(j, text):
                return k + j < len(s) and toks[s[k + j]].text == text
            if not (toks[i].text == "." and at(1, "iter") and at(2, "(") and at(3, ")") and at(4, ".") and at(5, "filter_map") and at(6, "(")):
                continue
            o1 = s[k + 6]; c1 = m[o1]; c1k = s.index(c1)
            def at2(j, text):
                return c1k + j < len(s) and toks[s[c1k + j]].text == text
            if not (at2(1, ".") and at2(2, "flatten") and at2(3, "(") and at2(4, ")") and at2(5, ".") and at2(6, "find") and at2(7, "(")):
                continue
            o2 = s[c1k + 7]; c2 = m[o2]; c2k = s.index(c2)
            cl1 = _closure_spans(toks, s, m, k + 6, c1k)
            cl2 = _closure_spans(toks, s, m, c1k + 7, c2k)
            if not cl1 or cl1[0][0] != k + 7 or not cl2 or cl2[0][0] != c1k + 8:
                continue
            b1, b2, bs, be = cl1[0]
            p1 = src[toks[s[b1]].end:toks[s[b2]].start].strip()
            f_body = src[toks[s[bs]].start:toks[s[be]].end]
            b1, b2, bs, be = cl2[0]
            p2 = src[toks[s[b1]].end:toks[s[b2]].start].strip()
            g_body = src[toks[s[bs]].start:toks[s[be]].end]
            j = k - 1
            depth = 0
            while j >= 0:
                t = toks[s[j]]
                if t.text == ")":
                    j = s.index(m[s[j]]) - 1
                    continue
                if t.kind == "ident" and t.text in ("let", "return", "mut", "in", "if", "match"):
                    break
                if t.kind == "ident" or t.text == ".":
                    j -= 1
                    continue
                break
            r0 = j + 1
            recv = src[toks[s[r0]].start:toks[i].start].strip()
            bind = ("let %s = q__%d;" % (p2[1:].strip(), n)) if p2.startswith("&") else ("let %s = &q__%d;" % (p2, n))
            def flat(txt):
                return " ".join("".join(t.text for t in lex(txt) if t.kind != "comment").split())
            new = ("{ let mut found__%d = None; let mut ot__%d = %s.iter(); 'search__%d: loop /*@flat_find outer*/ { "
                   "match ot__%d.next() { Some(%s) => { match (%s) { Some(inner__%d) => { let mut in__%d = inner__%d; "
                   "loop /*@flat_find inner*/ { match in__%d.next() { Some(q__%d) => { %s if (%s) {\n"
                   "found__%d = Some(q__%d); break 'search__%d;\n"
                   "} } None => { break; } } } } None => {} } } None => {\n"
                   "break; /*outer exhausted*/\n"
                   "} } } found__%d }"
                   % (n, n, recv, n, n, p1, flat(f_body), n, n, n, n, n, bind, flat(g_body), n, n, n, n))
            hit = (toks[s[r0]].start, toks[c2].end, new)
            break
        if hit is None:
            break
        src = _replace(src, [hit])
        n += 1
    log["R28"] = log.get("R28", 0) + n
    return src


def r29_text_literals(src, log):
    """R29: `BytesText::new("lit")` -> `BytesText::new(&lit("lit"))`: a string literal written as element text is tracked as
    TextVal::Lit (the shim BytesText::new takes the tracked string type)."""
    new, n = re.subn(r'BytesText::new\(\s*("(?:[^"\\]|\\.)*")\s*\)', r'BytesText::new(&lit(\1))', src)
    log["R29"] = log.get("R29", 0) + n
    return new


RULES = {
    "R29": r29_text_literals,
    "R28": r28_flat_find,
    "R26": r26_spawn, "R27": r27_block_in_place,
    "R25": r25_map_collect,
    "R21": r21_streq,
    "R17": r17_underscore_assign,
    "R18": r18_try_for_each,
    "R1": r1_attrs, "R2": r2_logs, "R3": r3_await, "R4": r4_select, "R5": r5_break, "R6": r6_index,
    "R12": r12_for,
}


# ----------------------------------------------------------------------------------------------
# template processing
# ----------------------------------------------------------------------------------------------

@dataclass
class GenLine:
    text: str
    origin: tuple          # ('src', file, line) | ('tpl', line, label, kind) | ('gen', what)
    fid: str | None = None  # id of the extracted function this line belongs to


@dataclass
class UnitResult:
    lines: list
    functions: list = field(default_factory=list)   # dicts for the evidence
    bytelits: dict = field(default_factory=dict)
    bytelit_map: dict = field(default_factory=dict)

    def text(self):
        return "\n".join(l.text for l in self.lines) + "\n"


_DIR = re.compile(r"^\s*//@(\w[\w-]*)\s*(.*)$")


def _parse_kv(rest: str) -> dict:
    out = {}
    for mm in re.finditer(r"(\w+)=(/(?:[^/\\]|\\.)*/|\S+)", rest):
        v = mm.group(2)
        if v.startswith("/") and v.endswith("/") and len(v) >= 2:
            v = v[1:-1].replace("\\/", "/")
        out[mm.group(1)] = v
    return out


def _label_lines(block_lines, base_line, kind, default_prefix):
    """attach obligation labels: `// OBL:name` on a line labels that line and following ones"""
    out = []
    cur = None
    for off, l in enumerate(block_lines):
        mm = re.search(r"//\s*OBL:([\w.+\-]+)", l)
        if mm:
            cur = mm.group(1)
        lab = cur if cur else "%s@T%d" % (default_prefix, base_line + off)
        out.append(GenLine(l, ("tpl", base_line + off, lab, kind)))
    return out


def process_template(tpl_path: str, repo: str, variant: dict | None = None) -> UnitResult:
    """variant: optional {'ensures_false': fn_id} to build the vacuity canary for one function"""
    variant = variant or {}
    tpl = []
    variant = dict(variant)
    variant["_template_idents"] = set(re.findall(r"[A-Za-z_]\w*", open(tpl_path).read()))
    for raw in open(tpl_path).read().split("\n"):
        im = re.match(r"^\s*//@include\s+(\S+)", raw)
        if im:
            inc = os.path.join(os.path.dirname(os.path.dirname(os.path.abspath(__file__))), im.group(1))
            tpl.extend(open(inc).read().rstrip("\n").split("\n"))
        else:
            tpl.append(raw)
    res = UnitResult(lines=[])
    i = 0
    while i < len(tpl):
        line = tpl[i]
        dm = _DIR.match(line)
        if not dm or dm.group(1) not in ("extract", "item", "bytelits", "assoc"):
            lm = re.search(r"//\s*OBL:([\w.+\-]+)", line)
            res.lines.append(GenLine(line, ("tpl", i + 1, lm.group(1) if lm else None, "prelude")))
            i += 1
            continue
        if dm.group(1) == "bytelits":
            # optional mapping  <literal text>=<spec fn name>  (the generated accessor then ensures r@ == <spec fn>()
            # and a generated proof fn checks that the property's spec name has exactly the literal's bytes)
            for mm in re.finditer(r"(\S+)=([\w:]+)", dm.group(2)):
                res.bytelit_map[mm.group(1)] = mm.group(2)
            res.lines.append(GenLine("//@@BYTELITS@@", ("gen", "bytelits")))
            i += 1
            continue
        if dm.group(1) == "assoc":
            kv = _parse_kv(dm.group(2))
            while i + 1 < len(tpl) and tpl[i + 1].lstrip().startswith("//@+"):
                kv.update(_parse_kv(tpl[i + 1].split("//@+", 1)[1]))
                del tpl[i + 1]
            src = open(os.path.join(repo, kv["file"])).read()
            mm = None
            for hm in re.finditer(r"\bimpl\b([^{;]*)\{", src):
                if re.search(kv["impl"], " ".join(("impl" + hm.group(1)).split())):
                    toks_ = lex(src); m_ = match_brackets(toks_)
                    o_ = next(ix for ix, tk in enumerate(toks_) if tk.start == hm.end() - 1)
                    blk = src[toks_[o_].end:toks_[m_[o_]].start]
                    if kv.get("kind") == "const":
                        am = re.search(r"\bconst\s+%s\s*:\s*([^=;]+)=\s*([^;]+);" % re.escape(kv["name"]), blk)
                    else:
                        am = re.search(r"\btype\s+%s\s*=\s*([^;]+);" % re.escape(kv["name"]), blk)
                    if am:
                        mm = (am, toks_[o_].end)
                    break
            if mm is None:
                raise ExtractError("anchor lost: assoc %s %s in impl /%s/ of %s" % (kv.get("kind", "type"), kv["name"], kv["impl"], kv["file"]))
            am, base = mm
            if kv.get("kind") == "const":
                # an associated const becomes a function returning the real initializer expression, with the template's
                # postcondition:  const NAME: T = E;  ->  pub fn <as>() -> (res: T) ensures <ensures> { E }
                ty = re.sub(r"&\s*(?!')", "&'static ", am.group(1).strip())
                lab = ("   // OBL:" + kv["label"]) if kv.get("label") else ""
                text = "pub fn %s() -> (res: %s)\n    ensures %s,%s\n{ %s }" % (kv["as"], ty, kv.get("ensures", "true"), lab, " ".join(am.group(2).split()))
            else:
                text = "type %s = %s;" % (kv["name"], am.group(1).strip())
            for pair in [x for x in kv.get("sub", "").split(";") if x]:
                x, y = pair.split("=>"); text = text.replace(x, y)
            if kv.get("kind") == "const":
                fid_ = kv.get("id", kv["as"])
                for l in text.split("\n"):
                    if l.lstrip().startswith("ensures "):
                        if variant.get("ensures_false") == fid_:
                            l = l.replace("ensures ", "ensures false, /*CANARY*/ ", 1)
                        gl = GenLine(l, ("tpl", i + 1, kv.get("label"), "contract"))
                    else:
                        gl = GenLine(l, ("src", kv["file"], _line_of(src, base + am.start())))
                    gl.fid = fid_
                    res.lines.append(gl)
                res.functions.append({"id": fid_, "kind": "fn", "fn": kv["name"], "file": kv["file"],
                                      "lines": [_line_of(src, base + am.start()), _line_of(src, base + am.end())],
                                      "sha256": hashlib.sha256(am.group(0).encode()).hexdigest(), "rules": {"assoc const -> fn": 1}})
                i += 1
                continue
            res.lines.append(GenLine(text, ("src", kv["file"], _line_of(src, base + am.start()))))
            res.functions.append({"id": "assoc:%s:%s" % (kv["impl"], kv["name"]), "kind": "item", "file": kv["file"],
                                  "lines": [_line_of(src, base + am.start())] * 2, "sha256": hashlib.sha256(text.encode()).hexdigest(), "rules": {}})
            i += 1
            continue
        if dm.group(1) == "item":
            kv = _parse_kv(dm.group(2))
            path = os.path.join(repo, kv["file"])
            src = open(path).read()
            a, b = find_item(src, kv["kind"], kv["name"])
            sp = _mk_span(kv["file"], src, a, b, "%s %s" % (kv["kind"], kv["name"]))
            log = {}
            # derive(Default) with a `#[default]` variant: generate the `default()` that the derive generates
            default_variant = None
            if kv["kind"] == "enum" and re.search(r"derive\([^)]*\bDefault\b", sp.text):
                dv = re.search(r"#\[default\]\s*(\w+)", sp.text)
                if dv:
                    default_variant = dv.group(1)
            text = r1_attrs(sp.text, log)
            if kv["kind"] == "const" and "call" in kv:
                # const NAME: &[u8] = b"..";  ->  external_body fn NAME_() with the literal's bytes
                mm = re.search(r"const\s+(\w+)\s*:\s*([^=]+)=\s*(b\"(?:[^\"\\]|\\.)*\")\s*;", text)
                if not mm:
                    raise ExtractError("const %s is not a byte-string literal (outside R14)" % kv["name"])
                val = byte_string_value(mm.group(3))
                text = ("#[verifier::external_body]\n"
                        "pub fn %s_() -> (r: &'static [u8]) ensures r@ == seq![%s] { %s }"
                        % (mm.group(1), ", ".join("%du8" % x for x in val), mm.group(3)))
                log["R14.def"] = 1
            const_ens = None
            if kv["kind"] == "const" and "ensures" in kv:
                # const NAME: T = EXPR;  ->  exec const NAME: T ensures <template clause> { EXPR }   (initializer = real code)
                mm = re.search(r"const\s+(\w+)\s*:\s*([^=]+?)\s*=\s*(.*?);\s*$", text, re.S)
                if not mm:
                    raise ExtractError("const %s: unsupported shape" % kv["name"])
                const_ens = kv["ensures"]
                text = "pub exec const %s: %s\n    ensures %s,\n{ %s }" % (mm.group(1), mm.group(2), "@@ENS@@", mm.group(3))
                log["const->exec const"] = 1
            if "sub" in kv:
                for pair in kv["sub"].split(";"):
                    if pair:
                        x, y = pair.split("=>")
                        text = text.replace(x, y); log.setdefault("SUB", []).append(pair)
            for off, l in enumerate(text.split("\n")):
                if const_ens is not None and "@@ENS@@" in l:
                    res.lines.append(GenLine(l.replace("@@ENS@@", const_ens),
                                             ("tpl", i + 1, kv.get("label", "const.%s" % kv["name"]), "contract")))
                else:
                    res.lines.append(GenLine(l, ("src", sp.file, sp.line0 + min(off, sp.text.count("\n")))))
            if default_variant:
                res.lines.append(GenLine("impl core::default::Default for %s { fn default() -> (r: Self) ensures r == %s::%s { %s::%s } }   // derive(Default), #[default] %s"
                                         % (kv["name"], kv["name"], default_variant, kv["name"], default_variant, default_variant), ("src", sp.file, sp.line0)))
                log["derive(Default)"] = default_variant
            res.functions.append({"id": kv.get("id", kv["name"]), "kind": "item", "file": sp.file,
                                  "lines": [sp.line0, sp.line0 + sp.text.count("\n")], "sha256": sp.sha256,
                                  "rules": log})
            i += 1
            continue
        # ---- extract
        kv = _parse_kv(dm.group(2))
        # continuation lines `//@+ k=v`
        j = i + 1
        while j < len(tpl) and tpl[j].lstrip().startswith("//@+"):
            kv.update(_parse_kv(tpl[j].split("//@+", 1)[1]))
            j += 1
        sections = []   # (name, arg, first_tpl_line, lines)
        cur = None
        while j < len(tpl):
            dm2 = _DIR.match(tpl[j])
            if dm2 and dm2.group(1) == "end":
                break
            if dm2 and dm2.group(1) == "local":
                # //@local <name-used-in-the-contracts> /regex with one group capturing the code's identifier/
                lm_ = re.match(r"(\w+)\s+/((?:[^/\\]|\\.)*)/", dm2.group(2).strip())
                if not lm_:
                    raise ExtractError("template: bad //@local directive at line %d" % (j + 1))
                sections.append(["local", (lm_.group(1), lm_.group(2).replace("\\/", "/")), j + 1, []])
                cur = None
                j += 1
                continue
            if dm2 and dm2.group(1) in ("sig", "contract", "loop", "closure", "before", "after", "wrap", "check-before", "check-after", "check-before-stmt", "before-stmt"):
                cur = [dm2.group(1), dm2.group(2).strip(), j + 2, []]
                if dm2.group(1) == "sig":
                    cur[3].append(dm2.group(2))
                    cur[2] = j + 1
                sections.append(cur)
            elif cur is not None:
                cur[3].append(tpl[j])
            j += 1
        if j >= len(tpl):
            raise ExtractError("template: //@extract without //@end at line %d" % (i + 1))
        try:
            gen = _gen_function(kv, sections, repo, res, variant)
            res.lines.extend(gen)
        except ExtractError as e:
            if kv.get("optional") and "anchor lost: fn " in str(e):
                # an optional function (e.g. a helper that a refactoring may have renamed away): skipped, and recorded
                res.functions.append({"id": kv["id"], "kind": "absent-optional", "file": kv["file"], "fn": kv["fn"],
                                      "lines": [0, 0], "sha256": "", "rules": {"absent": str(e)}})
            else:
                raise
        i = j + 1
    # byte literal table
    out = []
    for gl in res.lines:
        if gl.text == "//@@BYTELITS@@":
            for lit, (nm, val) in res.bytelits.items():
                seqtxt = ("seq![%s]" % ", ".join("%du8" % x for x in val)) if val else "Seq::<u8>::empty()"
                try:
                    key = val.decode("ascii")
                except UnicodeDecodeError:
                    key = None
                spec = res.bytelit_map.get(key)
                out.append(GenLine("#[verifier::external_body]", ("gen", "bytelit")))
                if spec:
                    # the accessor's (trusted, generated) contract is justified by the Verus-checked lemma emitted next to it
                    idfn = res.bytelit_map.get("idfn", "name_id")
                    out.append(GenLine("pub fn %s() -> (r: &'static [u8]) ensures %s(r@) == %s, forall|s__: Seq<u8>| #[trigger] %s(s__) == %s ==> s__ == r@ { %s }"
                                       % (nm, idfn, spec, idfn, spec, lit), ("gen", "bytelit")))
                    out.append(GenLine("pub proof fn %s_matches_spec() ensures %s(%s) == %s, forall|s__: Seq<u8>| #[trigger] %s(s__) == %s ==> s__ =~= %s { reveal(%s); }"
                                       % (nm, idfn, seqtxt, spec, idfn, spec, seqtxt, idfn), ("tpl", 0, "bytelit.%s.code_literal_is_%s" % (nm, spec), "contract")))
                else:
                    out.append(GenLine("pub fn %s() -> (r: &'static [u8]) ensures r@ == %s { %s }" % (nm, seqtxt, lit), ("gen", "bytelit")))
        else:
            out.append(gl)
    res.lines = out
    return res


def _gen_function(kv, sections, repo, res: UnitResult, variant) -> list:
    path = os.path.join(repo, kv["file"])
    if not os.path.exists(path):
        raise ExtractError("anchor lost: file %s" % kv["file"])
    src = open(path).read()
    fid = kv["id"]
    rules = [r for r in kv.get("rules", "").split(",") if r]
    log: dict = {}
    item_start, fn_kw, bo, bc, toks = find_fn(src, kv["fn"], kv.get("impl"), int(kv.get("nth", "1")))
    sig_a = toks[fn_kw].start
    # include `pub`/`async` qualifiers in the signature text
    s_all = sig(toks)
    kidx = s_all.index(fn_kw)
    while kidx > 0 and toks[s_all[kidx - 1]].kind == "ident" and toks[s_all[kidx - 1]].text in ("async", "const", "pub"):
        kidx -= 1
    sig_a = toks[s_all[kidx]].start
    whole = _mk_span(kv["file"], src, item_start, toks[bc].end, "fn " + kv["fn"])
    sig_text = src[sig_a:toks[bo].start]
    body_a, body_b = toks[bo].start, toks[bc].end
    sig_override = None
    for sname, sarg, sline, slines in sections:
        if sname == "sig":
            sig_override = "\n".join(slines)
    if "stmts" in kv:
        # a run of whole statements of the body: from the line matching stmts= to the line matching upto= (inclusive)
        body_text = src[body_a:body_b]
        m1 = re.search(kv["stmts"], body_text, re.M)
        m2 = re.search(kv["upto"], body_text[m1.end():], re.M) if m1 else None
        if not m1 or not m2:
            raise ExtractError("anchor lost: stmts=/%s/ upto=/%s/ in fn %s" % (kv["stmts"], kv.get("upto"), kv["fn"]))
        a2 = body_text.rfind("\n", 0, m1.start()) + 1
        b2 = body_text.find("\n", m1.end() + m2.end())
        if sig_override is None:
            raise ExtractError("template: stmts= extraction needs //@sig")
        body_a, body_b = body_a + a2, body_a + (b2 if b2 >= 0 else len(body_text))
    if "block" in kv or "expr" in kv:
        # sub-span inside the body
        body_text = src[body_a:body_b]
        pat = kv.get("block") or kv.get("expr")
        mm = re.search(pat, body_text)
        if not mm:
            raise ExtractError("anchor lost: /%s/ in fn %s of %s" % (pat, kv["fn"], kv["file"]))
        if "block" in kv:
            btoks = lex(body_text); bm = match_brackets(btoks)
            o = next((ix for ix, t in enumerate(btoks) if t.start >= mm.end() - 1 and t.text == "{"), None)
            if o is None:
                raise ExtractError("anchor lost: block after /%s/" % pat)
            body_a2 = body_a + btoks[o].start
            body_b2 = body_a + btoks[bm[o]].end
        else:
            # expression starting at the match start, ending at the close of the first `{` block after it
            btoks = lex(body_text); bm = match_brackets(btoks)
            o = next((ix for ix, t in enumerate(btoks) if t.start >= mm.end() - 1 and t.text == "{"), None)
            if o is None:
                raise ExtractError("anchor lost: expr block after /%s/" % pat)
            body_a2 = body_a + mm.start()
            body_b2 = body_a + btoks[bm[o]].end
        if sig_override is None:
            raise ExtractError("template: block=/expr= extraction needs //@sig")
        body_a, body_b = body_a2, body_b2
    span = _mk_span(kv["file"], src, body_a, body_b, "body of fn " + kv["fn"])
    body = src[body_a:body_b]
    line0 = _line_of(src, body_a)
    if "stmts" in kv:
        body = "{\n" + body + (" " + kv["post"] if kv.get("post") else "") + " }"
        line0 -= 1
        log["stmts"] = [kv["stmts"], kv["upto"]]
    if "expr" in kv:
        # wrap the expression as a block; optional `post=` text (e.g. returning a local the arms assign) is appended
        body = "{ " + body + (" " + kv["post"] if kv.get("post") else "") + " }"
        if kv.get("post"):
            log["post"] = kv["post"]
    for pair in [p for p in kv.get("sub", "").split(";;") if p]:
        x, y = pair.split("=>")
        if x not in body:
            raise ExtractError("anchor lost: substitution source %r not found in fn %s" % (x, kv["fn"]))
        body = body.replace(x, y)
        log.setdefault("SUB", []).append(pair)
    # optsub=: like sub=, but for constructs the current text does not (and should not) contain: applied only where the source
    # occurs, so that a change which introduces the construct meets its shim (and the shim's precondition) instead of an unknown path
    for pair in [p for p in kv.get("optsub", "").split(";;") if p]:
        x, y = pair.split("=>")
        if x in body:
            body = body.replace(x, y)
            log.setdefault("OPTSUB", []).append(pair)

    # contret=1: the extracted block is one arm of a loop body; a `continue;` in it (not inside a nested loop) ends the arm just as
    # falling off its end does, so it becomes `return;` and the arm's contract covers both ways out
    if kv.get("contret"):
        btoks_ = lex(body); bm_ = match_brackets(btoks_)
        sig_ = [ix for ix, t in enumerate(btoks_) if t.kind not in ("ws", "comment")]
        nested = []
        for q, ix in enumerate(sig_):
            t = btoks_[ix]
            if t.kind == "ident" and t.text in ("loop", "while", "for"):
                ob = next((jx for jx in sig_[q + 1:] if btoks_[jx].text == "{"), None)
                if ob is not None:
                    nested.append((btoks_[ob].start, btoks_[bm_[ob]].end))
        edits_ = []
        for ix in sig_:
            t = btoks_[ix]
            if t.kind == "ident" and t.text == "continue" and not any(a_ <= t.start < b_ for a_, b_ in nested):
                edits_.append((t.start, t.end, "return"))
        if edits_:
            body = _replace(body, edits_)
            log["contret"] = len(edits_)
    # opaque=/let x = /=>CALL : the initializer expression of the `let` statement the regex matches (from the end of the match
    # to the `;` that closes the statement) is replaced by CALL - an external shim; what is dropped is exactly that expression
    for pair in [p for p in kv.get("opaque", "").split(";;") if p]:
        pat, call = pair.split("=>")
        mm = re.search(pat, body)
        if not mm:
            raise ExtractError("anchor lost: opaque expression /%s/ not found in fn %s" % (pat, kv["fn"]))
        btoks = lex(body); depth = 0; endpos = None
        for t in btoks:
            if t.start < mm.end():
                continue
            if t.kind == "punct" and t.text in "([{":
                depth += 1
            elif t.kind == "punct" and t.text in ")]}":
                depth -= 1
                if depth < 0:
                    break
            elif t.kind == "punct" and t.text == ";" and depth == 0:
                endpos = t.start
                break
        if endpos is None:
            raise ExtractError("anchor lost: opaque expression /%s/ has no terminating `;`" % pat)
        dropped = body[mm.end():endpos]
        body = body[:mm.end()] + call + "\n" * dropped.count("\n") + body[endpos:]
        log.setdefault("OPAQUE", []).append({"anchor": pat, "replaced_by": call, "dropped_text_sha256": hashlib.sha256(dropped.encode()).hexdigest()[:16], "dropped_lines": dropped.count("\n") + 1})

    # --- signature
    if sig_override is not None:
        sig_text = sig_override
        log["signature"] = "restated in template"
    else:
        if "R3" in rules:
            sig_text = r3_await(sig_text, log)
        sig_text = r13_retname(sig_text, log)
        if "R15" in rules:
            sig_text = r15_erase_generics(sig_text, log, set(kv.get("erase", "NsReader,BytesStart,BytesEnd").split(",")),
                                          set(x for x in kv.get("erasetypes", "").split(",") if x))
        if kv.get("rename"):
            sig_text = re.sub(r"\bfn\s+%s\b" % re.escape(kv["fn"]), "fn " + kv["rename"], sig_text, count=1)
            log["rename"] = kv["rename"]
        if kv.get("vis"):
            sig_text = re.sub(r"^\s*(pub(\([^)]*\))?\s+)?", kv["vis"] + " ", sig_text, count=1)
    # --- body rules
    # function-local `const X: &T = ..;` needs an explicit lifetime in Verus (same normalisation as find_simple_const)
    body2 = re.sub(r"(\bconst\s+[A-Z][A-Z0-9_]*\s*:\s*)&\s*(?!')", r"\1&'static ", body)
    if body2 != body:
        log["R14.local_const_lifetime"] = len(re.findall(r"&'static", body2)) - len(re.findall(r"&'static", body))
        body = body2
    if variant.get("inline"):
        body = r20_inline(body, log, variant["inline"])
    if variant.get("inline_fns"):
        body = r20b_inline_fns(body, log, variant["inline_fns"])
    # module-level consts of the same source file that the template does not know about (typically introduced by a refactoring)
    # are resolved up front: an unknown upper-case identifier in PATTERN position would otherwise silently become a catch-all binding
    cmap_ = dict(variant.get("const_subst") or {})
    known_ = variant.get("_template_idents", set())
    for nm_ in sorted(set(t.text for t in lex(body) if t.kind == "ident" and re.fullmatch(r"[A-Z][A-Z0-9_]{2,}", t.text))):
        if nm_ in cmap_ or nm_ in known_:
            continue
        cc_ = find_simple_const(src, nm_)
        if cc_:
            cmap_[nm_] = cc_[1]
    if cmap_:
        body = r14b_const_subst(body, log, cmap_)
    for r in rules:
        if r == "R7":
            body = r7_apply(body, log, kv.get("r7map", "result"), kv.get("r7pathmap", "result"), kv.get("r7mapor", "option"))
        elif r == "R11":
            body = r11_bytelits(body, log, res.bytelits)
        elif r in ("R13", "R16"):
            pass
        elif r == "R15":
            body = r15_erase_generics(body, log, set(kv.get("erase", "NsReader,BytesStart,BytesEnd").split(",")),
                                      set(x for x in kv.get("erasetypes", "").split(",") if x))
        elif r == "R14":
            body = r14_constcall(body, log, set(kv.get("consts", "").split(",")))
        elif r == "R5":
            body = r5_break(body, log)
        elif r == "R3":
            body = r3_await(body, log, bool(kv.get("awaitcall")))
        elif r == "R12":
            body = r12_for(body, log, kv.get("intoiter", ""))
        elif r == "R22":
            body = r22_rpc(body, log)
        elif r == "R19":
            body = r19_any_all(body, log, kv.get("r19kind", "vec"))
        elif r == "R24":
            body = r24_guarded_try(body, log, [x for x in kv.get("guardtry", "").split(",") if x])
        elif r == "R8":
            body = r8_constpat(body, log, [c for c in kv.get("constpats", "").split(",") if c])
        elif r in RULES:
            body = RULES[r](body, log)
        else:
            raise ExtractError("template: unknown rule " + r)
    if "R16" in rules:
        sig_text, body = r16_mut_self(sig_text, body, log)
    # leftover constructs that no rule handled -> undecided, never a silent pass
    for t in lex(body):
        if t.kind == "ident" and t.text == "await":
            raise ExtractError("`.await` left in %s (R3 not requested)" % fid)
    # --- splice
    body_lines = body.split("\n")
    glines = [GenLine(l, ("src", span.file, line0 + off)) for off, l in enumerate(body_lines)]

    def find_line(pat, nth=1):
        c = 0
        for ix, gl in enumerate(glines):
            if gl.origin[0] == "src" and re.search(pat, gl.text):
                c += 1
                if c == nth:
                    return ix
        raise ExtractError("anchor lost: /%s/ (#%d) in %s" % (pat, nth, fid))

    # locals named in the contracts: follow a renaming of the local in the code
    renames = {}
    body_txt_now = "\n".join(g.text for g in glines)
    for sname, sarg, sline, slines in sections:
        if sname == "local":
            tname, pat = sarg
            mm_ = re.search(pat, body_txt_now)
            if mm_ and mm_.group(1) != tname:
                renames[tname] = mm_.group(1)
    if renames:
        log["locals_renamed"] = dict(renames)

    def _ren(text):
        if not renames:
            return text
        return "".join(renames.get(tk.text, tk.text) if tk.kind == "ident" else tk.text for tk in lex(text))

    def _ren_re(pat):
        for a_, b_ in renames.items():
            pat = re.sub(r"(?<![\w\\])%s(?!\w)" % re.escape(a_), b_, pat)
        return pat
    sections = [(sn, (_ren_re(sa) if sn in ("before", "after", "check-before", "check-after") else sa), sl,
                 ([_ren(x) for x in sls] if sn not in ("sig", "local") else sls)) for sn, sa, sl, sls in sections]
    contract_lines = []
    inserts = []   # (index, position 'before'|'after-stmt', lines)
    for sname, sarg, sline, slines in sections:
        if sname in ("sig", "local"):
            continue
        if sname == "contract":
            contract_lines = _label_lines(slines, sline, "contract", fid + ".contract")
        elif sname == "loop":
            # after the k-th loop header: find in glines the k-th `loop`/`while` keyword line and insert after the keyword
            kth = int(sarg.split()[0])
            inserts.append(("loop", kth, _label_lines(slines, sline, "loop", "%s.loop%d" % (fid, kth)), "optional" in sarg.split()))
        elif sname == "closure":
            kth = int(sarg.split()[0])
            inserts.append(("closure", kth, _label_lines(slines, sline, "closure", "%s.closure%d" % (fid, kth)), "optional" in sarg.split()))
        elif sname in ("before", "check-before") and sarg.strip().split()[:1] == ["@tail"]:
            # `//@before @tail`: before the tail expression (the last top-level statement) of the function body, whatever it is
            is_check = sname.startswith("check-")
            inserts.append(("before-tail", None, _label_lines(slines, sline, "contract" if is_check else "hint",
                                                              "%s.%s" % (fid, "check" if is_check else "hint")), "optional" in sarg.split()))
        elif sname in ("check-before-stmt", "before-stmt"):
            # anchor = k-th match of a (multi-line) regex in the body; the lines are inserted before the STATEMENT that contains
            # the match (so the anchor may sit in the middle of a method chain spread over several lines)
            mm = re.match(r"/((?:[^/\\]|\\.)*)/\s*(\d+)?\s*(optional)?", sarg)
            if not mm:
                raise ExtractError("template: bad anchor %r" % sarg)
            is_check = sname.startswith("check-")
            inserts.append(("before-stmt", (_ren_re(mm.group(1).replace("\\/", "/")), int(mm.group(2) or 1)),
                            _label_lines(slines, sline, "contract" if is_check else "hint",
                                         "%s.%s" % (fid, "check" if is_check else "hint")), bool(mm.group(3))))
        elif sname in ("before", "after", "check-before", "check-after"):
            mm = re.match(r"/((?:[^/\\]|\\.)*)/\s*(\d+)?\s*(optional)?", sarg)
            if not mm:
                raise ExtractError("template: bad anchor %r" % sarg)
            is_check = sname.startswith("check-")
            inserts.append((sname.replace("check-", ""), (mm.group(1).replace("\\/", "/"), int(mm.group(2) or 1)),
                            _label_lines(slines, sline, "contract" if is_check else "hint",
                                         "%s.%s" % (fid, "check" if is_check else "hint")), bool(mm.group(3))))
    # loops: find loop header positions in the (rewritten) body by tokens
    body_now = "\n".join(g.text for g in glines)
    btoks = lex(body_now); bm = match_brackets(btoks); bs = sig(btoks)
    loops = _loops(btoks, bs, bm, 0, len(bs))
    closures = _closure_spans(btoks, bs, bm, 0, len(bs))
    # loops generated by R19 (`any` / `all`) that the template gives no contract for get a default one (bounds + termination),
    # so that an `any`/`all` introduced by a code change is verified as an opaque boolean instead of stopping Verus
    targeted = set(arg for kind, arg, lab, optional in inserts if kind == "loop")
    for li, (lk, lo, lc) in enumerate(loops, 1):
        hdr = body_now[btoks[bs[lk]].start:btoks[lo].start]
        mm_ = re.search(r"while (i__\d+) < (s__\d+)\.len\(\) /\*@(any|all)\*/", hdr)
        if mm_ and li not in targeted:
            iv, sv = mm_.group(1), mm_.group(2)
            inserts.append(("loop", li, [GenLine("    invariant %s <= %s.len(), decreases %s.len() - %s," % (iv, sv, sv, iv), ("gen", "default-loop-contract"))], False))
    # we insert text at byte offsets -> convert to (line, col) and split lines
    ins_at: list[tuple[int, list]] = []   # (byte offset in body_now, genlines)
    for kind, arg, lab, optional in inserts:
        if optional:
            absent = (kind == "loop" and arg > len(loops)) or (kind == "closure" and arg > len(closures)) or \
                     (kind in ("before", "after") and
                      sum(1 for g in glines if g.origin[0] == "src" and re.search(arg[0], g.text)) < arg[1])
            if absent:
                log.setdefault("optional_anchor_absent", []).append("%s %s" % (kind, arg))
                continue
        if kind == "loop":
            if arg > len(loops):
                raise ExtractError("anchor lost: loop #%d in %s" % (arg, fid))
            k, o, c = loops[arg - 1]
            ins_at.append((btoks[o].start, lab))
        elif kind == "closure":
            if arg > len(closures):
                raise ExtractError("anchor lost: closure #%d in %s" % (arg, fid))
            b1, b2, bsx, be = closures[arg - 1]
            if btoks[bs[bsx]].text != "{":
                # expression-bodied closure: wrap the body in a block so that the contract can precede it
                lab = lab + [GenLine("{", ("gen", "closure-block"))]
                ins_at.append((btoks[bs[be]].end, [GenLine("}", ("gen", "closure-block"))]))
            ins_at.append((btoks[bs[bsx]].start, lab))
        elif kind == "before-stmt":
            ms_ = list(re.finditer(arg[0], body_now))
            if len(ms_) < arg[1]:
                if optional:
                    log.setdefault("optional_anchor_absent", []).append("before-stmt %s" % (arg,))
                    continue
                raise ExtractError("anchor lost: /%s/ (#%d) in %s" % (arg[0], arg[1], fid))
            mpos = ms_[arg[1] - 1].start()
            ti = max((ix for ix, t in enumerate(btoks) if t.start <= mpos and t.kind not in ("ws", "comment")), default=None)
            if ti is None:
                raise ExtractError("anchor lost: /%s/ in %s" % (arg[0], fid))
            # walk back to the token that ends the previous statement / opens the enclosing block
            j = ti
            while j >= 0:
                t = btoks[j]
                if t.kind in ("ws", "comment"):
                    j -= 1; continue
                if t.kind == "punct" and t.text in ")]}" and j != ti:
                    if t.text == "}":
                        break
                    j = bm[j] - 1; continue
                if t.kind == "punct" and t.text in ";{" and j != ti:
                    break
                j -= 1
            nxt = next((ix for ix in range(j + 1, len(btoks)) if btoks[ix].kind not in ("ws", "comment")), None)
            toff = btoks[nxt].start
            ls = body_now.rfind("\n", 0, toff) + 1
            ins_at.append((ls if not body_now[ls:toff].strip() else toff, lab))
        elif kind == "before-tail":
            o0 = next((ix for ix, t in enumerate(btoks) if t.kind == "punct" and t.text == "{"), None)
            if o0 is None:
                raise ExtractError("anchor lost: @tail (no body block) in %s" % fid)
            c0 = bm[o0]
            inner = [ix for ix in range(o0 + 1, c0) if btoks[ix].kind not in ("ws", "comment")]
            stmt_start = inner[0] if inner else None
            first_kw = btoks[stmt_start].text if stmt_start is not None else None
            pos_ = 0
            while pos_ < len(inner):
                ix = inner[pos_]
                t = btoks[ix]
                if t.kind == "punct" and t.text in "([{":
                    cix = bm[ix]
                    # jump over the bracketed group
                    while pos_ < len(inner) and inner[pos_] < cix:
                        pos_ += 1
                    # inner[pos_] is the closing bracket
                    if t.text == "{" and first_kw in ("loop", "while", "for", "if", "match", "unsafe", "{", "'"):
                        nxt = btoks[inner[pos_ + 1]] if pos_ + 1 < len(inner) else None
                        if nxt is not None and nxt.text not in (";", ".", "?", "else", "as", "=", "+", "-", "*", "/", "&", "|", "<", ">"):
                            stmt_start = inner[pos_ + 1]; first_kw = btoks[stmt_start].text
                    pos_ += 1
                    continue
                if t.kind == "punct" and t.text == ";":
                    if pos_ + 1 < len(inner):
                        stmt_start = inner[pos_ + 1]; first_kw = btoks[stmt_start].text
                    else:
                        stmt_start = None
                pos_ += 1
            if stmt_start is None:
                raise ExtractError("anchor lost: @tail (body has no tail expression) in %s" % fid)
            # insert at the start of the line holding the tail's first token if only whitespace precedes it there
            toff = btoks[stmt_start].start
            ls = body_now.rfind("\n", 0, toff) + 1
            ins_at.append((ls if not body_now[ls:toff].strip() else toff, lab))
        elif kind == "before":
            ix = find_line(arg[0], arg[1])
            off = sum(len(g.text) + 1 for g in glines[:ix])
            ins_at.append((off, lab))
        elif kind == "after":
            ix = find_line(arg[0], arg[1])
            off = sum(len(g.text) + 1 for g in glines[:ix])
            # statement end: first `;` at depth 0 relative, or end of a block statement, scanning tokens from `off`
            depth = 0
            endoff = None
            started = False
            for t in btoks:
                if t.start < off or t.kind in ("ws", "comment"):
                    continue
                if t.kind == "punct" and t.text in "([{":
                    depth += 1
                elif t.kind == "punct" and t.text in ")]}":
                    depth -= 1
                    if depth < 0:
                        endoff = t.start
                        break
                    if depth == 0 and t.text == "}" and started:
                        # block-like statement (if/match/loop) ends here unless followed by else / ; / . / ?
                        nxt = next((u for u in btoks if u.start >= t.end and u.kind not in ("ws", "comment")), None)
                        if nxt is None or (nxt.text not in (";", ".", "?", "else") ):
                            endoff = t.end
                            break
                elif t.kind == "punct" and t.text == ";" and depth == 0:
                    endoff = t.end
                    break
                started = True
            if endoff is None:
                raise ExtractError("anchor: cannot find statement end after /%s/ in %s" % (arg[0], fid))
            ins_at.append((endoff, lab))
    # apply inserts from the end
    out_lines = list(glines)

    def split_at(offset):
        """ensure a line boundary exists at byte offset; return index of the line starting there"""
        pos = 0
        for ix, g in enumerate(out_lines):
            ln = len(g.text)
            if offset == pos:
                return ix
            if pos < offset <= pos + ln:
                col = offset - pos
                if col == ln:
                    return ix + 1
                a, b = g.text[:col], g.text[col:]
                out_lines[ix] = GenLine(a, g.origin)
                out_lines.insert(ix + 1, GenLine(b, g.origin))
                return ix + 1
            pos += ln + 1
        return len(out_lines)

    # offsets refer to body_now (before any insertion): process in descending order
    for off, lab in sorted(ins_at, key=lambda x: -x[0]):
        ix = split_at(off)
        out_lines[ix:ix] = lab
    # canary variant
    if variant.get("ensures_false") == fid:
        # vacuity canary: `false` becomes the first postcondition (syntactically safe: `ensures false, <the others>`)
        done = False
        for cl in contract_lines:
            code = cl.text.split("//")[0]
            mm_ = re.search(r"^\s*ensures\b", code)
            if mm_:
                cl.text = cl.text[:mm_.end()] + " false, /*CANARY*/" + cl.text[mm_.end():]
                done = True
                break
        if not done:
            contract_lines = contract_lines + [GenLine("    ensures false, // CANARY", ("gen", "canary"))]
    sig_lines = [GenLine(l, ("src", span.file, _line_of(src, sig_a) + off) if sig_override is None else ("tpl", 0, fid + ".sig", "sig"))
                 for off, l in enumerate(sig_text.rstrip().split("\n"))]
    res.functions.append({
        "id": fid, "kind": "fn", "file": kv["file"], "fn": kv["fn"], "impl": kv.get("impl"),
        "lines": [line0, line0 + body.count("\n")], "sha256": span.sha256, "rules": log,
        "sub_span": kv.get("block") or kv.get("expr"),
    })
    allines = sig_lines + contract_lines + out_lines
    for gl in allines:
        gl.fid = fid
    return allines


if __name__ == "__main__":
    r = process_template(sys.argv[1], sys.argv[2] if len(sys.argv) > 2 else "/repo")
    sys.stdout.write(r.text())

#!/usr/bin/env python3
"""regenerate the seed table of DESIGN.md section 7 from seeded/*/meta.json"""
import glob, json, os, re
V = os.path.dirname(os.path.dirname(os.path.abspath(__file__)))
rows = []
n = {"detected": 0, "missed": 0, "undecided (exit 2)": 0}
for d in sorted(glob.glob(os.path.join(V, "seeded", "*", "meta.json"))):
    m = json.load(open(d))
    name = os.path.basename(os.path.dirname(d))
    first = ""
    for p, c in m["checks_run"].items():
        if c["exit"] == 1:
            first = c["first_line"].split("obligation=")[-1].split(" ")[0]
            break
    n[m["status"]] = n.get(m["status"], 0) + 1
    rows.append("| %s | %s | %s |" % (name, m["status"], first))
t = open(os.path.join(V, "DESIGN.md")).read()
a = t.index("| seed | status | first failing obligation |")
b = t.index("*Missed* seeds")
t = t[:a] + "| seed | status | first failing obligation |\n|---|---|---|\n" + "\n".join(rows) + "\n\nTotals: %d detected, %d undecided (exit 2), %d missed.\n\n" % (n["detected"], n["undecided (exit 2)"], n["missed"]) + t[b:]
open(os.path.join(V, "DESIGN.md"), "w").write(t)
print(n)

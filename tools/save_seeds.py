#!/usr/bin/env python3
"""save_seeds.py <PROP> <mutdir> [<check props...>] : copy confirmed seeded changes into /verif/seeded and record what the checks report"""
import json, os, shutil, subprocess, sys, glob, re
V = os.path.dirname(os.path.dirname(os.path.abspath(__file__)))
prop, mroot = sys.argv[1], sys.argv[2]
checks = sys.argv[3:] or [prop]
for m in sorted(glob.glob(os.path.join(mroot, "m*"))):
    name = "%s-%s" % (prop, os.path.basename(m))
    dst = os.path.join(V, "seeded", name)
    conf = json.load(open(os.path.join(m, "confirm.json"))) if os.path.exists(os.path.join(m, "confirm.json")) else {}
    if not conf.get("confirmed"):
        print("skip (not confirmed)", m); continue
    os.makedirs(dst, exist_ok=True)
    for f in ("patch.diff", "demo.diff", "notes.md"):
        if os.path.exists(os.path.join(m, f)):
            shutil.copy(os.path.join(m, f), os.path.join(dst, f))
    subprocess.run(["python3", os.path.join(V, "tools", "run_seed.py"), m] + checks, capture_output=True, text=True)
    det = json.load(open(os.path.join(m, "detect.json")))
    notes = open(os.path.join(m, "notes.md")).read() if os.path.exists(os.path.join(m, "notes.md")) else ""
    mm = re.search(r"(?im)^#+\s*(what it needs|needs|to manifest|manifest)[^\n]*\n(.+?)(?=\n#|\Z)", notes, re.S)
    needs = (mm.group(2).strip()[:800] if mm else notes.strip().split("\n\n")[0][:800])
    detected = [p for p, c in det["checks"].items() if c["rc"] == 1]
    meta = {
        "property": prop,
        "source": "independent sub-agent given only the property text and a scratch worktree (nothing from /verif)",
        "needs_to_manifest": needs,
        "confirmed_by": "tools/confirm_seed.py in a scratch worktree: (1) demo.diff alone -> whole workspace suite passes; (2) demo.diff + patch.diff -> the only failing tests are the demo tests",
        "demo_tests_failing_with_patch": conf.get("step2_demo_and_patch", {}).get("failed"),
        "suite_with_patch": {"passed": conf.get("step2_demo_and_patch", {}).get("passed"), "failed_other_than_demo": []},
        "checks_run": {p: {"exit": c["rc"], "first_line": (c["lines"] or [""])[0][:300]} for p, c in det["checks"].items()},
        "detected_by": detected,
        "status": "detected" if detected else ("undecided (exit 2)" if any(c["rc"] == 2 for c in det["checks"].values()) else "missed"),
    }
    json.dump(meta, open(os.path.join(dst, "meta.json"), "w"), indent=1)
    print(name, meta["status"], detected)

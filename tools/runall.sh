#!/bin/bash
# run every claimed check (quick tier) and print one line each; exit 1 if any is not OK
cd "$(dirname "$0")/.."
rc=0
for p in $(python3 -c "import json; print(' '.join(sorted(json.load(open('units/units.json'))['properties'])))"); do
  out=$(python3 tools/check.py $p "$@"); r=$?
  echo "$p rc=$r $(echo "$out" | grep -E '^(OK|VIOLATION|TOOL-ERROR)' | head -1 | cut -c1-160)"
  [ $r -ne 0 ] && rc=1
done
exit $rc

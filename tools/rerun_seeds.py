#!/usr/bin/env python3
"""Re-run stored seeded changes (seeded/<id>/patch.diff) against the registered quick checks and refresh meta.json.

usage: rerun_seeds.py [--all-checks] [seed-id ...]      (default: every seed, only the check of the seed's own property
                                                          plus the checks already recorded in its meta.json)
Applies each patch to /repo, runs the checks, and ALWAYS restores /repo (git checkout -- .) afterwards.
Also prints, for harmless refactorings (seeded/harmless/r*), any check that does not exit 0.
"""
import glob, json, os, subprocess, sys
V = os.path.dirname(os.path.dirname(os.path.abspath(__file__)))
REPO = "/repo"


def sh(cmd, **kw):
    return subprocess.run(cmd, shell=True, capture_output=True, text=True, **kw)


def claimed():
    m = json.load(open(os.path.join(V, "MANIFEST.json")))
    return [c["property_id"] if "property_id" in c else c["id"] for c in m["checks"]]


def run_checks(props):
    import concurrent.futures as cf
    out = {}
    with cf.ThreadPoolExecutor(max_workers=5) as ex:
        results = list(ex.map(lambda p: (p, sh("python3 %s/tools/check.py %s" % (V, p))), props))
    for p, r in results:
        lines = [l for l in r.stdout.splitlines() if l.startswith(("VIOLATION", "TOOL-ERROR", "OK ", "KNOWN-FINDING"))]
        first = next((l for l in lines if l.startswith("VIOLATION")), None) or next((l for l in lines if l.startswith("TOOL-ERROR")), None) \
            or next((l for l in lines if l.startswith("OK ")), "")
        out[p] = {"exit": r.returncode, "first_line": first[:400]}
    return out


def main():
    args = [a for a in sys.argv[1:] if not a.startswith("--")]
    allc = "--all-checks" in sys.argv
    if sh("git -C %s status --porcelain" % REPO).stdout.strip():
        print("refusing: /repo working tree is not clean"); sys.exit(2)
    props_all = claimed()
    seeds = sorted(glob.glob(os.path.join(V, "seeded", "C*", "meta.json")))
    for mp in seeds:
        d = os.path.dirname(mp); name = os.path.basename(d)
        if args and name not in args:
            continue
        meta = json.load(open(mp))
        props = props_all if allc else sorted(set([meta["property"]] + list(meta.get("checks_run", {}).keys())) & set(props_all))
        a = sh("git -C %s apply %s/patch.diff" % (REPO, d))
        if a.returncode:
            print(name, "patch does not apply:", a.stderr.strip()[:200]); continue
        try:
            res = run_checks(props)
        finally:
            sh("git -C %s checkout -- ." % REPO)
        meta["checks_run"] = res
        det = [p for p, c in res.items() if c["exit"] == 1]
        meta["detected_by"] = det
        own = res.get(meta["property"], {"exit": 0})
        meta["status"] = "detected" if det else ("undecided (exit 2)" if any(c["exit"] == 2 for c in res.values()) else "missed")
        json.dump(meta, open(mp, "w"), indent=1)
        print(name, meta["status"], {p: c["exit"] for p, c in res.items()})
    if not args or any(a.startswith("r") for a in args):
        for pd in sorted(glob.glob(os.path.join(V, "seeded", "harmless", "r*", "patch.diff")), key=lambda x: int(os.path.basename(os.path.dirname(x))[1:])):
            name = os.path.basename(os.path.dirname(pd))
            if args and name not in args:
                continue
            a = sh("git -C %s apply %s" % (REPO, pd))
            if a.returncode:
                print(name, "patch does not apply"); continue
            try:
                res = run_checks(props_all)
            finally:
                sh("git -C %s checkout -- ." % REPO)
            bad = {p: c for p, c in res.items() if c["exit"] != 0}
            print("harmless", name, "all exit 0" if not bad else {p: (c["exit"], c["first_line"][:120]) for p, c in bad.items()})


if __name__ == "__main__":
    main()

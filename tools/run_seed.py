#!/usr/bin/env python3
"""run_seed.py <mutant-dir> <PROP> [<PROP>...] : apply patch.diff to /repo, run the quick checks, undo; writes detect.json"""
import json, os, subprocess, sys
mdir = sys.argv[1]; props = sys.argv[2:]
V = os.path.dirname(os.path.dirname(os.path.abspath(__file__)))
assert subprocess.run("git -C /repo status --porcelain", shell=True, capture_output=True, text=True).stdout.strip() == "", "/repo not clean"
a = subprocess.run("git -C /repo apply --whitespace=nowarn %s" % os.path.join(mdir, "patch.diff"), shell=True, capture_output=True, text=True)
out = {"mutant": mdir, "applied": a.returncode == 0, "checks": {}}
try:
    if a.returncode == 0:
        for p in props:
            r = subprocess.run(["python3", os.path.join(V, "tools", "check.py"), p], capture_output=True, text=True, cwd=V)
            out["checks"][p] = {"rc": r.returncode, "lines": [l for l in r.stdout.split("\n") if l.startswith(("VIOLATION", "TOOL-ERROR", "OK", "KNOWN"))][:6]}
finally:
    subprocess.run("git -C /repo checkout -- .", shell=True)
json.dump(out, open(os.path.join(mdir, "detect.json"), "w"), indent=1)
for p, c in out["checks"].items():
    print(mdir, p, "rc=%d" % c["rc"], (c["lines"] or [""])[0][:230])

#!/usr/bin/env python3
"""check.py <PROPERTY-ID> [--tier quick|thorough] [--repo /repo]

Decides one property: re-extracts the functions its units put under contract from the current
working tree of /repo, splices the contracts kept in /verif/units, runs Verus on the generated
file(s), triages the diagnostics into named obligations and writes evidence/<ID>.json.

exit 0  property held (every obligation discharged, canaries behaved)       [KNOWN-FINDING lines possible]
exit 1  VIOLATION property=<id> replay=<path> obligation=<name> no-failing-input-found
exit 2  TOOL-ERROR (anchor lost, construct outside the rewrite table, type error, rlimit): undecided
"""
from __future__ import annotations
import argparse
import concurrent.futures as cf
import hashlib
import json
import os
import re
import shutil
import subprocess
import sys
import time

HERE = os.path.dirname(os.path.abspath(__file__))
VERIF = os.path.dirname(HERE)
sys.path.insert(0, HERE)
from extract import process_template, ExtractError, GenLine, find_simple_method, find_simple_const, find_simple_fn  # noqa: E402
from rustlex import LexError  # noqa: E402

OBL_CLASSES = [
    ("postcondition not satisfied", "postcondition"),
    ("precondition not satisfied", "precondition"),
    ("invariant not satisfied at end of loop body", "invariant-preserved"),
    ("invariant not satisfied before loop", "invariant-established"),
    ("loop invariant not satisfied", "invariant-preserved"),
    ("loop ensures not satisfied", "loop-postcondition"),
    ("unable to prove post-condition of closure", "postcondition"),
    ("unable to prove pre-condition of closure", "precondition"),
    ("decreases not satisfied at continue", "termination"),
    ("bitvector assertion not satisfied", "assertion"),
    ("explicit panic", "panic-freedom"),
    ("postcondition not satisfied", "postcondition"),
    ("assertion failed", "assertion"),
    ("assertion failure", "assertion"),
    ("decreases not satisfied", "termination"),
    ("could not prove termination", "termination"),
    ("possible arithmetic underflow/overflow", "arithmetic"),
    ("possible division by zero", "arithmetic"),
    ("possible bit shift underflow/overflow", "arithmetic"),
    ("recommendation not met", None),     # a `recommends` is not an obligation
    ("unreachable", "panic-freedom"),
    ("constructed value may fail to meet its declared type invariant", "type-invariant"),
]


def load_config():
    return json.load(open(os.path.join(VERIF, "units", "units.json")))


def load_known():
    p = os.path.join(VERIF, "known_findings.json")
    if not os.path.exists(p):
        return {"findings": [], "fixed": []}
    return json.load(open(p))


def run_verus(path: str, logdir: str | None, extra: list[str], timeout: int = 900):
    cmd = ["verus", path, "--error-format=json", "--output-json", "--time"] + extra
    if logdir:
        cmd += ["--log", "air-final", "--log-dir", logdir]
    t0 = time.time()
    try:
        p = subprocess.run(cmd, capture_output=True, text=True, timeout=timeout, cwd=os.path.dirname(path))
    except subprocess.TimeoutExpired:
        return {"cmd": cmd, "timeout": True, "wall": time.time() - t0, "diags": [], "json": None, "rc": None, "raw": ""}
    diags = []
    for line in p.stderr.split("\n"):
        line = line.strip()
        if line.startswith("{"):
            try:
                diags.append(json.loads(line))
            except json.JSONDecodeError:
                pass
    js = None
    try:
        js = json.loads(p.stdout[p.stdout.index("{"):]) if "{" in p.stdout else None
    except (json.JSONDecodeError, ValueError):
        js = None
    return {"cmd": cmd, "timeout": False, "wall": time.time() - t0, "diags": diags, "json": js, "rc": p.returncode,
            "raw": p.stderr[-4000:]}


def count_obligations(logdir: str) -> int:
    n = 0
    if not os.path.isdir(logdir):
        return 0
    for f in os.listdir(logdir):
        if f.endswith(".air"):
            with open(os.path.join(logdir, f), errors="replace") as fh:
                for line in fh:
                    n += line.count("(location")
    return n


def classify(msg: str):
    for pat, cls in OBL_CLASSES:
        if pat in msg:
            return cls, True
    return None, False


def fn_regions(lines: list[GenLine], functions):
    """generated line ranges of each extracted function: from its signature to the last src line"""
    regions = []
    # a function region = maximal run of lines whose origin is src/tpl(contract/loop/hint/closure/sig)/gen canary
    cur = None
    for ln, gl in enumerate(lines, 1):
        o = gl.origin
        infn = o[0] == "src" or (o[0] == "tpl" and o[3] in ("contract", "loop", "hint", "closure", "sig")) or \
            (o[0] == "gen" and o[1] == "canary")
        if infn:
            if cur is None:
                cur = [ln, ln]
            cur[1] = ln
        else:
            if cur is not None:
                regions.append(tuple(cur))
                cur = None
    if cur is not None:
        regions.append(tuple(cur))
    # items (consts/structs) also produce regions; match regions to functions by file+line
    out = []
    for (a, b) in regions:
        srcs = [(lines[i - 1].origin[1], lines[i - 1].origin[2]) for i in range(a, b + 1) if lines[i - 1].origin[0] == "src"]
        fid = None
        for f in functions:
            if any(sf == f["file"] and f["lines"][0] <= sl <= f["lines"][1] for sf, sl in srcs):
                fid = f["id"]
                break
        out.append((a, b, fid))
    return out


def _callsite(span, gen_file):
    """a span inside a macro expansion (e.g. unimplemented!()) -> the span of the macro call in the generated file"""
    s = span
    guard = 0
    # (also when the macro is one of the unit's own macro_rules shims, i.e. defined in the generated file itself)
    while s and s.get("expansion") and guard < 10 and \
            (os.path.basename(s.get("file_name", "")) != gen_file or
             (s["expansion"].get("span") and os.path.basename(s["expansion"]["span"].get("file_name", "")) == gen_file)):
        s2 = dict(s["expansion"]["span"])
        s2["is_primary"] = span.get("is_primary")
        s2.setdefault("label", span.get("label"))
        s = s2
        guard += 1
    return s


def triage(unit, gen, vr, unit_cfg):
    """-> (failures, tool_errors).  failure = dict(obligation, cls, property, fn, rendered, where)"""
    lines = gen.lines
    gen_file = os.path.basename(vr["cmd"][1])
    regions = fn_regions(lines, gen.functions)

    def region_of(ln):
        if 1 <= ln <= len(lines) and getattr(lines[ln - 1], "fid", None):
            return lines[ln - 1].fid
        for a, b, fid in regions:
            if a <= ln <= b:
                return fid
        return None
    failures, tool_errors = [], []
    for d in vr["diags"]:
        if d.get("level") != "error":
            continue
        msg = d.get("message", "")
        if msg.startswith("aborting due to"):
            continue
        cls, known = classify(msg)
        if "rlimit" in msg or "Resource limit" in msg:
            tool_errors.append({"kind": "rlimit", "message": msg, "rendered": d.get("rendered", "")})
            continue
        if not known:
            tool_errors.append({"kind": "verus-error", "message": msg, "rendered": d.get("rendered", "")})
            continue
        if cls is None:
            continue
        spans = [_callsite(s, gen_file) for s in d.get("spans", [])]
        label, kind, where, fn = None, None, None, None
        unl = False
        prim = next((s for s in spans if s.get("is_primary")), spans[0] if spans else None)
        # the clause itself ("failed this postcondition/precondition/invariant") is the best source of the label
        spans = sorted(spans, key=lambda s: 0 if (s.get("label") or "").startswith("failed this") else 1)
        for s in spans:
            ln = s["line_start"]
            if 1 <= ln <= len(lines):
                o = lines[ln - 1].origin
                # multi-line clause: take the label of any line in the span (but never scan a whole function body)
                for l2 in range(ln, min(s["line_end"], ln + 6, len(lines)) + 1):
                    o2 = lines[l2 - 1].origin
                    if o2[0] == "tpl" and o2[2] and not o2[2].split("@")[-1].startswith("T"):
                        o = o2
                if o[0] == "tpl" and o[2]:
                    better = (label is None) or (kind == "hint" and o[3] != "hint") or \
                             (("@T" in (label or "")) and "@T" not in o[2] and not (s.get("label") or "").startswith("at "))
                    if better:
                        label, kind = o[2], o[3]
                if fn is None:
                    fn = region_of(ln)
        if prim is not None:
            ln = prim["line_start"]
            o = lines[ln - 1].origin if 1 <= ln <= len(lines) else ("?",)
            if o[0] == "src":
                where = "%s:%d" % (o[1], o[2])
            elif o[0] == "tpl":
                where = "units/%s/unit.rs:%d" % (unit, o[1])
            else:
                where = "generated:%d" % ln
            fn = region_of(ln) or fn
        if cls == "termination" and (label is None or kind == "hint") and prim is not None:
            # Verus reports the loop / function, not the `decreases` clause: use the label of that clause
            cand = list(range(prim["line_start"], min(prim["line_start"] + 80, len(lines)) + 1))
            if "continue" in msg or "end of loop" in msg:
                # reported at a `continue` / loop end: the clause precedes it -> nearest preceding decreases of the same function
                cand = list(range(prim["line_start"], max(prim["line_start"] - 200, 0), -1)) + cand
            for l2 in cand:
                o2 = lines[l2 - 1].origin
                if o2[0] == "tpl" and o2[3] in ("loop", "contract") and "decreases" in lines[l2 - 1].text \
                        and getattr(lines[l2 - 1], "fid", None) == getattr(lines[prim["line_start"] - 1], "fid", None):
                    label, kind = o2[2], o2[3]
                    break
        if cls == "precondition" and prim is not None and re.search(r"\b(unimplemented|unreachable|panic|todo)!\s*\(", "".join(x.get("text", "") for x in prim.get("text", []))):
            cls = "panic-freedom"
        if label is None and fn is None:
            # an unlabelled proof step of the template's own prelude (a lemma, a shim body): the proof script needs
            # attention, but no named obligation of a property failed -> undecided, never an alarm
            tool_errors.append({"kind": "prelude-proof", "message": "%s in the unit's prelude at %s (no labelled obligation)" % (msg, where or "?"),
                                "rendered": d.get("rendered", "")})
            continue
        if label is None:
            # a failing obligation of the extracted code that no contract clause of the template names (overflow of an
            # arithmetic expression, an index, a callee precondition): it belongs to a property only if the unit says which
            # property covers "no reachable panic / overflow" for its functions (C14 for the readers); otherwise undecided
            if cls == "panic-freedom" and unit_cfg.get("panic_property"):
                # a reachable panic!/unreachable!/todo!/unimplemented!() of the extracted code, in a unit that says which property a
                # panic of its functions breaks (unlike an arithmetic obligation, this needs no invariant about new variables)
                label = where or "?"
                mm_ = None
                failures.append({"obligation": "%s/%s/%s/%s" % (unit, fn or "prelude", cls, label), "cls": cls,
                                 "property": [unit_cfg["panic_property"]], "fn": fn, "kind": kind, "where": where,
                                 "rendered": d.get("rendered", ""), "message": msg})
                continue
            if not unit_cfg.get("unlabelled_property"):
                tool_errors.append({"kind": "unlabelled-obligation", "message": "%s at %s in %s: no contract clause names this obligation (undecided)" % (msg, where or "?", fn),
                                    "rendered": d.get("rendered", "")})
                continue
            label = where or "?"
            unl = True
        # property attribution
        mm = re.match(r"((?:C\d+\+)*C\d+)\.", label)
        if mm:
            prop = mm.group(1).split("+")
        elif unl:
            prop = [unit_cfg.get("unlabelled_property")]
        else:
            # a contract clause of the template that carries no label (a frame condition, a helper's postcondition): the proofs of
            # every labelled obligation of this unit rely on it modularly, so its failure concerns every property of the unit
            prop = list(unit_cfg.get("properties") or [unit_cfg.get("default_property")])
        name = "%s/%s/%s/%s" % (unit, fn or "prelude", cls, label)
        failures.append({"obligation": name, "cls": cls, "property": prop, "fn": fn, "kind": kind,
                         "where": where, "rendered": d.get("rendered", ""), "message": msg})
    return failures, tool_errors


def scan_trusted(gen_text: str):
    out = []
    lines = gen_text.split("\n")
    for i, l in enumerate(lines):
        if "external_body" in l or "assume_specification" in l or re.search(r"\buninterp\b", l) or "external_type_specification" in l:
            # name = next fn / spec fn / struct line
            nm = None
            for j in range(i, min(i + 6, len(lines))):
                mm = re.search(r"\b(?:fn|struct|enum)\s+(\w+)", lines[j])
                if mm:
                    nm = mm.group(1)
                    break
                mm = re.search(r"assume_specification.*?\[\s*([^\]]+)\]", lines[j])
                if mm:
                    nm = mm.group(1).strip()
                    break
            kind = "external_body" if "external_body" in l else ("assume_specification" if "assume_specification" in l else
                                                                  ("uninterp" if "uninterp" in l else "external_type"))
            out.append("%s: %s" % (kind, nm or l.strip()))
    forbidden = []
    for i, l in enumerate(lines):
        code = l.split("//")[0]
        if re.search(r"\b(assume|admit)\s*\(", code):
            forbidden.append("line %d: %s" % (i + 1, l.strip()))
    return sorted(set(out)), forbidden


def build_unit(unit, cfg, repo, outdir, variant=None, tag=""):
    tpl = os.path.join(VERIF, cfg["units"][unit]["template"])
    gen = process_template(tpl, repo, variant)
    path = os.path.join(outdir, "%s%s.rs" % (unit, tag))
    with open(path, "w") as fh:
        fh.write(gen.text())
    return gen, path


MUT_OPS = [
    (r" == ", " != "), (r" != ", " == "), (r" < ", " <= "), (r" <= ", " < "), (r" > ", " >= "), (r" >= ", " > "),
    (r" && ", " || "), (r" \|\| ", " && "), (r"\btrue\b", "false"), (r"\bfalse\b", "true"),
    (r"\.is_none\(\)", ".is_some()"), (r"\.is_some\(\)", ".is_none()"), (r"if !", "if "), (r"&& !", "&& "),
    (r" \+ 1\b", " + 2"), (r" - 1\b", " - 0"), (r"\bSome\(Self::Ok\)", "None"), (r"=> break\b", "=> continue"),
]


def mutation_probe(unit, gen, path, outdir, seed, cap=48):
    """thorough tier only: single-token mutations of the EXTRACTED CODE lines (never of contract lines) of the generated file;
    each mutant is run through Verus. killed = Verus rejects it, survived = all obligations still discharged,
    invalid = does not type-check. A measured indication of how tightly the contracts pin the code down."""
    import random
    lines = [gl.text for gl in gen.lines]
    cands = []
    for ln, gl in enumerate(gen.lines):
        if gl.origin[0] != "src" or gl.text.strip().startswith("//"):
            continue
        for oi, (pat, rep) in enumerate(MUT_OPS):
            for mm in re.finditer(pat, gl.text):
                cands.append((ln, oi, mm.start(), mm.end(), rep))
        st = gl.text.strip()
        if st.endswith(";") and re.match(r"^[a-z_][\w.]*\.(push|set|insert|reset\w*|extend_from_slice)\(", st):
            cands.append((ln, -1, 0, len(gl.text), ""))
    rnd = random.Random(seed * 7919 + len(cands))
    rnd.shuffle(cands)
    cands = cands[:cap]

    def one(ix_c):
        ix, (ln, oi, a, b, rep) = ix_c
        ml = list(lines)
        ml[ln] = ml[ln][:a] + rep + ml[ln][b:]
        p2 = os.path.join(outdir, "%s_mut%d.rs" % (unit, ix))
        with open(p2, "w") as fh:
            fh.write("\n".join(ml) + "\n")
        v = run_verus(p2, None, ["--multiple-errors", "0"], timeout=300)
        try:
            os.remove(p2)
        except OSError:
            pass
        o = gen.lines[ln].origin
        where = "%s:%d" % (o[1], o[2])
        desc = "%s  [%s -> %s]" % (where, lines[ln][a:b].strip() or "stmt", rep.strip() or "(deleted)")
        if v["timeout"] or v["json"] is None:
            return "invalid", desc
        res = v["json"].get("verification-results", {})
        hard = [d for d in v["diags"] if d.get("level") == "error" and not classify(d.get("message", ""))[1]
                and not d.get("message", "").startswith("aborting") and "rlimit" not in d.get("message", "")]
        if hard:
            return "invalid", desc
        return ("survived" if res.get("success") else "killed"), desc
    out = {"generated": len(cands), "killed": 0, "survived": 0, "invalid": 0, "survivors": []}
    with cf.ThreadPoolExecutor(max_workers=12) as ex:
        for status, desc in ex.map(one, enumerate(cands)):
            out[status] += 1
            if status == "survived":
                out["survivors"].append(desc)
    return out


def main():
    ap = argparse.ArgumentParser()
    ap.add_argument("prop")
    ap.add_argument("--tier", default=os.environ.get("VERIF_TIER", "quick"))
    ap.add_argument("--repo", default="/repo")
    ap.add_argument("--keep", action="store_true")
    args = ap.parse_args()
    pid = args.prop
    tier = args.tier if args.tier in ("quick", "thorough") else "quick"
    seed = int(os.environ.get("VERIF_SEED", "0") or 0)
    cfg = load_config()
    if pid not in cfg["properties"]:
        print("TOOL-ERROR: property %s is not claimed" % pid)
        return 2
    pcfg = cfg["properties"][pid]
    known = load_known()
    t0 = time.time()
    outdir = os.path.join(VERIF, "build", pid)
    shutil.rmtree(outdir, ignore_errors=True)
    os.makedirs(outdir, exist_ok=True)
    os.makedirs(os.path.join(VERIF, "evidence"), exist_ok=True)
    os.makedirs(os.path.join(VERIF, "replay"), exist_ok=True)

    total_obl = 0
    all_failures, all_tool = [], []
    functions, trusted, cmds, samples, extraction = [], [], [], [], []
    solver_ms = 0
    verified_fns = 0
    per_unit = {}
    canaries_run = 0
    seeds_run = []
    probes = {}
    for unit in pcfg["units"]:
        ucfg = cfg["units"][unit]
        try:
            gen, path = build_unit(unit, cfg, args.repo, outdir)
        except (ExtractError, LexError, FileNotFoundError, KeyError, StopIteration, IndexError) as e:
            all_tool.append({"kind": "extract", "message": "%s: %s: %s" % (unit, type(e).__name__, e)})
            continue
        text = gen.text()
        tb, forbidden = scan_trusted(text)
        if forbidden:
            all_tool.append({"kind": "forbidden-assume", "message": "; ".join(forbidden)})
        trusted += ["%s: %s" % (unit, t) for t in tb]
        logdir = os.path.join(outdir, unit + ".log")
        extra = ["--multiple-errors", "10" if tier == "thorough" else "4"]
        vr = run_verus(path, logdir, extra)
        cmds.append(" ".join(vr["cmd"]))
        if vr["timeout"]:
            all_tool.append({"kind": "timeout", "message": "verus timed out on %s" % unit})
            continue
        fails, tools = triage(unit, gen, vr, ucfg)
        # R20: unknown simple helpers / consts (typically introduced by a refactoring) are resolved from the unit's source files and
        # the unit is rebuilt; repeated (at most 4 rounds) because resolving one name can expose the next (a helper using a const)
        auto_variant = {"inline": {}, "const_subst": {}, "inline_fns": {}}
        src_files = sorted(set(f["file"] for f in gen.functions))

        def _ndefs(nm):
            n_ = 0
            for fp_ in src_files:
                try:
                    n_ += len(re.findall(r"\bfn\s+%s\s*[<(]" % re.escape(nm), open(os.path.join(args.repo, fp_)).read()))
                except OSError:
                    pass
            return n_
        for _round in range(4):
            grew = False
            for x in tools:
                msgtxt = x.get("message", "") + x.get("rendered", "")
                # helper methods `x.name()`: identified by name only, so the name must be defined exactly once in the unit's files
                for mm in re.finditer(r"no method named `(\w+)` found", msgtxt):
                    nm = mm.group(1)
                    if nm in auto_variant["inline"] or _ndefs(nm) != 1:
                        continue
                    for fp_ in src_files:
                        try:
                            e = find_simple_method(open(os.path.join(args.repo, fp_)).read(), nm)
                        except Exception:  # noqa: BLE001
                            e = None
                        if e:
                            auto_variant["inline"][nm] = e; grew = True
                            break
                # module-level consts: every use is replaced by the initializer expression (what the compiler does with a const)
                for mm in re.finditer(r"cannot find value `([A-Z][A-Z0-9_]*)` in this scope", msgtxt):
                    nm = mm.group(1)
                    if nm in auto_variant["const_subst"]:
                        continue
                    for fp_ in src_files:
                        try:
                            cc = find_simple_const(open(os.path.join(args.repo, fp_)).read(), nm)
                        except Exception:  # noqa: BLE001
                            cc = None
                        if cc:
                            auto_variant["const_subst"][nm] = cc[1]; grew = True
                            break
                # free / associated helper functions
                cands = [(mm.group(1), False) for mm in re.finditer(r"cannot find function `(\w+)` in this scope", msgtxt)]
                cands += [(mm.group(1), True) for mm in re.finditer(r"no (?:variant, associated function, or constant|function or associated item|variant or associated item|associated item) named `([a-z_]\w*)` found", msgtxt)]
                for nm_, assoc_ in cands:
                    if nm_ in auto_variant["inline_fns"] or _ndefs(nm_) != 1:
                        continue
                    for fp_ in src_files:
                        try:
                            ff = find_simple_fn(open(os.path.join(args.repo, fp_)).read(), nm_)
                        except Exception:  # noqa: BLE001
                            ff = None
                        if ff:
                            auto_variant["inline_fns"][nm_] = (ff[0], ff[1], assoc_); grew = True
                            break
            if not grew:
                break
            try:
                gen, path = build_unit(unit, cfg, args.repo, outdir, auto_variant)
                text = gen.text()
                vr = run_verus(path, logdir, extra)
                cmds.append(" ".join(vr["cmd"]))
                fails, tools = triage(unit, gen, vr, ucfg)
            except (ExtractError, LexError) as e:
                tools.append({"kind": "extract", "message": "R20 auto-resolution of %s: %s" % (sorted(auto_variant["inline"]) + sorted(auto_variant["const_subst"]) + sorted(auto_variant["inline_fns"]), e)})
                break
        if any(x["kind"] == "rlimit" for x in tools):
            # a resource limit hides whether an obligation fails: retry once with a large limit for a definite answer
            vr2 = run_verus(path, None, extra + ["--rlimit", "300"], timeout=1500)
            cmds.append(" ".join(vr2["cmd"]))
            if not vr2["timeout"]:
                f2, t2 = triage(unit, gen, vr2, ucfg)
                if not f2 and not fails and any(x["kind"] == "rlimit" for x in t2):
                    # still only a resource limit: one more attempt, first error only, very large limit
                    vr3 = run_verus(path, None, ["--multiple-errors", "0", "--rlimit", "3000"], timeout=1800)
                    cmds.append(" ".join(vr3["cmd"]))
                    if not vr3["timeout"]:
                        vr2 = vr3
                        f2, t2 = triage(unit, gen, vr3, ucfg)
                # keep definite failures from both runs; tool errors only from the retry
                seen = set(x["obligation"] for x in fails)
                fails = fails + [x for x in f2 if x["obligation"] not in seen]
                tools = t2
                if vr2["json"] is not None:
                    vr["json"] = vr2["json"]
        nobl = count_obligations(logdir)
        total_obl += nobl
        js = vr["json"] or {}
        res = js.get("verification-results", {})
        verified_fns += res.get("verified", 0)
        tm = js.get("times-ms", {})
        solver_ms += tm.get("smt", {}).get("total", 0) if isinstance(tm.get("smt"), dict) else 0
        if vr["json"] is None and not fails and not tools:
            tools.append({"kind": "verus-crash", "message": vr["raw"][-1500:]})
        if res and not res.get("success") and not fails and not tools:
            tools.append({"kind": "verus-error", "message": "verus reported failure without a classified diagnostic: " + vr["raw"][-1500:]})
        if nobl == 0:
            tools.append({"kind": "vacuity", "message": "unit %s generated zero obligations" % unit})
        per_unit[unit] = {"obligations": nobl, "verified_functions": res.get("verified"), "errors": res.get("errors"),
                          "wall_s": round(vr["wall"], 2)}
        all_failures += [f for f in fails]
        all_tool += tools
        for f in gen.functions:
            f2 = dict(f)
            f2["unit"] = unit
            functions.append(f2)
        # samples: labelled clauses
        seen = set()
        for gl in gen.lines:
            o = gl.origin
            if o[0] == "tpl" and o[2] and "@T" not in o[2] and o[2] not in seen and re.match(r"(?:C\d+\+)*" + pid + r"(?:\+C\d+)*\.", o[2]):
                seen.add(o[2])
                samples.append({"obligation": o[2], "unit": unit, "clause": gl.text.split("//")[0].strip()[:300]})
        # ---- vacuity canaries: each function under contract + `ensures false` must FAIL
        fn_ids = [f["id"] for f in gen.functions if f["kind"] == "fn"]
        known_names = set(k["obligation"] for k in known["findings"])
        blocking = [f for f in fails if pid in f["property"] and f["obligation"] not in known_names]
        if not blocking and not tools:
            def canary(fid):
                try:
                    g2, p2 = build_unit(unit, cfg, args.repo, outdir, dict(auto_variant, ensures_false=fid), "_canary_" + re.sub(r"\W", "_", fid))
                except Exception as e:  # noqa: BLE001
                    return fid, None, str(e)
                v2 = run_verus(p2, None, ["--multiple-errors", "0"])
                res2 = (v2["json"] or {}).get("verification-results")
                if res2 is None:
                    return fid, None, "canary did not reach verification: " + v2["raw"][-300:]
                # the canary must be REJECTED by the prover (a failed postcondition), not by the type checker
                proof_fail = any(d.get("level") == "error" and classify(d.get("message", ""))[1] for d in v2["diags"])
                ok = bool(res2.get("success")) or not proof_fail
                if not args.keep:
                    try:
                        os.remove(p2)
                    except OSError:
                        pass
                return fid, ok, ""
            with cf.ThreadPoolExecutor(max_workers=8) as ex:
                for fid, ok, err in ex.map(canary, fn_ids):
                    canaries_run += 1
                    if ok is None:
                        all_tool.append({"kind": "canary", "message": "canary build failed for %s: %s" % (fid, err)})
                    elif ok:
                        all_tool.append({"kind": "vacuity", "message": "`ensures false` was not rejected by the prover for %s: contradictory preconditions/shims (or the canary did not verify at all)" % fid})
            # ---- thorough: reseeded + doubled rlimit runs must agree
            if tier == "thorough":
                def reseed(sd):
                    v3 = run_verus(path, None, ["--rlimit", "20", "--smt-option", "smt.random_seed=%d" % sd, "--multiple-errors", "10"])
                    f3, t3 = triage(unit, gen, v3, ucfg)
                    return sd, f3, t3, (v3["json"] or {}).get("verification-results", {}).get("success")
                sds = [seed + 1, seed + 2, seed + 3]
                probes[unit] = mutation_probe(unit, gen, path, outdir, seed)
                base_mine = set(x["obligation"] for x in fails if pid in x["property"])
                with cf.ThreadPoolExecutor(max_workers=3) as ex:
                    for sd, f3, t3, ok in ex.map(reseed, sds):
                        seeds_run.append(sd)
                        re_mine = set(x["obligation"] for x in f3 if pid in x["property"])
                        if (re_mine - base_mine) or (t3 and not [x for x in t3 if x["kind"] == "rlimit"] == [] and False) or (not f3 and not ok):
                            all_tool.append({"kind": "brittle", "message": "unit %s passes with the default seed but not with smt.random_seed=%d: %s"
                                             % (unit, sd, "; ".join(x["obligation"] for x in f3) or "; ".join(x["message"] for x in t3))})
    # ---- attribute failures to this property
    mine = [f for f in all_failures if pid in f["property"]]
    others = [f for f in all_failures if pid not in f["property"]]
    # a hint failure is "proof hint no longer applies": undecided unless a contract clause fails too
    hint_only = [f for f in mine if f["kind"] == "hint"]
    mine = [f for f in mine if f["kind"] != "hint"]
    rc = 0
    out_lines = []
    viol = 0
    known_hits = []
    for f in mine:
        kf = next((k for k in known["findings"] if k["property"] == pid and k["obligation"] == f["obligation"]), None)
        if kf:
            if kf["obligation"] not in known_hits:
                known_hits.append(kf["obligation"])
                out_lines.append("KNOWN-FINDING: property=%s %s [obligation %s]" % (pid, kf["what"], kf["obligation"]))
            continue
        if any(l.startswith("VIOLATION ") and ("obligation=%s " % f["obligation"]) in l for l in out_lines):
            # the same named obligation fails at a second place: one VIOLATION line, both verifier outputs in the replay file
            safe = re.sub(r"[^A-Za-z0-9_.-]+", "_", f["obligation"])[:150]
            with open(os.path.join(VERIF, "replay", "%s-%s.txt" % (pid, safe)), "a") as fh:
                fh.write("\n--- also fails at %s ---\n%s\n" % (f["where"], f["rendered"]))
            continue
        viol += 1
        safe = re.sub(r"[^A-Za-z0-9_.-]+", "_", f["obligation"])[:150]
        rp = os.path.join(VERIF, "replay", "%s-%s.txt" % (pid, safe))
        fn = next((x for x in functions if x["id"] == f["fn"]), None)
        with open(rp, "w") as fh:
            fh.write("property: %s\nfailed obligation: %s\nclass: %s\nno-failing-input-found (Verus gives no counterexample)\n" % (pid, f["obligation"], f["cls"]))
            if fn:
                fh.write("function: %s  (%s lines %s, sha256 %s)\nrewrite rules fired: %s\n" % (fn.get("fn", fn["id"]), fn["file"], fn["lines"], fn["sha256"], json.dumps(fn["rules"])))
            fh.write("where: %s\nchecker: %s\n\n--- verifier output ---\n%s\n" % (f["where"], cmds[-1] if cmds else "", f["rendered"]))
        out_lines.append("VIOLATION property=%s replay=%s obligation=%s no-failing-input-found" % (pid, rp, f["obligation"]))
        rc = 1
    # tool errors only matter when no violation has been established
    relevant_tool = list(all_tool)
    if hint_only and not mine:
        relevant_tool.append({"kind": "hint", "message": "proof hint(s) no longer apply: " + "; ".join(h["obligation"] for h in hint_only)})
    if rc == 0 and relevant_tool:
        # rlimit next to failures of *another* property of the same unit is still undecided for us
        for t in relevant_tool:
            out_lines.append("TOOL-ERROR: property=%s %s: %s" % (pid, t["kind"], t["message"][:1500].replace("\n", " | ")))
        rc = 2
    wall = time.time() - t0
    # obligations of a recorded known finding are reported separately, not as discharged and not as open
    n_known = len(set(f["obligation"] for f in mine if f["obligation"] in set(known_hits)))
    n_open = len(set(f["obligation"] for f in mine if f["obligation"] not in set(known_hits)))
    n_foreign = len(set(f["obligation"] for f in others))
    total_obl = max(total_obl - n_known - n_foreign, 0)
    discharged = total_obl - n_open if total_obl else 0
    ev = {
        "property_id": pid, "tier": tier, "seed": seed, "level": "proof",
        "coverage": {
            "obligations": total_obl,
            "discharged": discharged if rc != 2 else 0,
            "checker_cmd": " ; ".join(cmds) if cmds else "verus (not run)",
            "trusted_base": sorted(set(trusted)) + cfg.get("global_trusted", []) + pcfg.get("trusted", []),
            "back_end": "Verus 0.2026.09.13 (z3 via AIR); obligations = `(location ..)` assertions counted in the AIR queries of this run",
            "functions_under_contract": [{"id": f["id"], "unit": f["unit"], "file": f["file"], "lines": f["lines"], "sha256": f["sha256"]}
                                         for f in functions if f["kind"] == "fn"],
            "extraction": [{"id": f["id"], "file": f["file"], "lines": f["lines"], "rules_fired": f["rules"], "sub_span": f.get("sub_span")} for f in functions],
            "verified_functions_incl_lemmas": verified_fns,
            "per_unit": per_unit,
            "vacuity_canaries_run": canaries_run,
            "reseeded_runs": seeds_run,
            "code_mutation_probe": probes,
            "solver_time_s": round(solver_ms / 1000.0, 3),
            "not_verified": pcfg.get("not_verified", []),
            "clauses_claimed": pcfg.get("claimed", []),
            "clauses_not_claimed": pcfg.get("not_claimed", []),
            "bounded": pcfg.get("bounded", []),
            "samples": samples[:12] or [{"obligation": "(none labelled for this property)"}],
            "known_findings_hit": known_hits,
            "obligations_excluded_as_known_finding": n_known,
            "obligations_failing_but_attributed_to_other_properties": n_foreign,
            "failed_obligations": [f["obligation"] for f in mine],
            "failures_attributed_to_other_properties": sorted(set(f["obligation"] for f in others)),
            "tool_errors": [t["kind"] + ": " + t["message"][:300] for t in relevant_tool],
        },
        "assumptions": pcfg.get("assumptions", []) + cfg.get("global_assumptions", []),
        "wall_s": round(wall, 2),
        "violations": viol,
    }
    with open(os.path.join(VERIF, "evidence", pid + ".json"), "w") as fh:
        json.dump(ev, fh, indent=1)
    for l in out_lines:
        print(l)
    if rc == 0:
        print("OK property=%s tier=%s obligations=%d discharged=%d functions=%d canaries=%d wall=%.1fs"
              % (pid, tier, total_obl, discharged, len([f for f in functions if f['kind'] == 'fn']), canaries_run, wall))
    if not args.keep:
        # keep generated .rs for inspection, drop the AIR logs (large)
        for unit in pcfg["units"]:
            shutil.rmtree(os.path.join(outdir, unit + ".log"), ignore_errors=True)
    return rc


if __name__ == "__main__":
    sys.exit(main())

#!/usr/bin/env python3
"""confirm_seed.py <mutant-dir> <worktree> : independently confirm a seeded change in a scratch worktree.
step 1: demo.diff only      -> whole workspace suite passes (incl. the demo tests)
step 2: demo.diff + patch   -> the only failing tests are tests added by demo.diff, and at least one fails
Writes <mutant-dir>/confirm.json."""
import json, os, re, subprocess, sys
mdir, wt = sys.argv[1], sys.argv[2]
tgt = wt + "-target"
env = dict(os.environ, CARGO_TARGET_DIR=tgt, CARGO_NET_OFFLINE="true", RUST_BACKTRACE="0")

def sh(cmd, **kw):
    return subprocess.run(cmd, shell=True, cwd=wt, capture_output=True, text=True, env=env, **kw)

def reset():
    sh("git checkout -q -- . && git clean -fdq")

def suite():
    r = sh("timeout 2400 cargo test --workspace --no-fail-fast --offline 2>&1")
    out = r.stdout
    failed = sorted(set(re.findall(r"^test (\S+) \.\.\. FAILED", out, re.M)))
    passed = len(re.findall(r"^test \S+ \.\.\. ok", out, re.M))
    compiled = "error: could not compile" not in out and "error[E" not in out
    return {"passed": passed, "failed": failed, "compiled": compiled, "tail": out[-1500:] if not compiled else ""}

demo = open(os.path.join(mdir, "demo.diff")).read()
demo_tests = sorted(set(re.findall(r"^\+\s*(?:async\s+)?fn\s+(\w+)\s*\(", demo, re.M)))
res = {"mutant": mdir, "demo_fns": demo_tests}
reset()
a = sh("git apply --whitespace=nowarn %s" % os.path.join(mdir, "demo.diff"))
res["demo_applies"] = a.returncode == 0
if a.returncode == 0:
    res["step1_demo_only"] = suite()
    b = sh("git apply --whitespace=nowarn %s" % os.path.join(mdir, "patch.diff"))
    res["patch_applies_on_demo"] = b.returncode == 0
    if b.returncode != 0:
        res["patch_err"] = b.stderr[-500:]
    else:
        res["step2_demo_and_patch"] = suite()
reset()
ok = (res.get("demo_applies") and res.get("patch_applies_on_demo")
      and res["step1_demo_only"]["compiled"] and not res["step1_demo_only"]["failed"]
      and res["step2_demo_and_patch"]["compiled"] and len(res["step2_demo_and_patch"]["failed"]) > 0
      and all(any(f.endswith("::" + d) or f == d for d in demo_tests) for f in res["step2_demo_and_patch"]["failed"]))
res["confirmed"] = bool(ok)
json.dump(res, open(os.path.join(mdir, "confirm.json"), "w"), indent=1)
print(mdir, "CONFIRMED" if ok else "NOT-CONFIRMED", res.get("step2_demo_and_patch", {}).get("failed"))

#!/usr/bin/env python3
"""setup-time sanity: verus is runnable offline and every unit template still extracts from /repo"""
import json, os, subprocess, sys
V = os.path.dirname(os.path.dirname(os.path.abspath(__file__)))
sys.path.insert(0, os.path.join(V, "tools"))
r = subprocess.run(["verus", "--version"], capture_output=True, text=True)
print(r.stdout.strip().split("\n")[0] if r.stdout else r.stderr.strip()[:200])
if r.returncode != 0:
    sys.exit(1)
from extract import process_template
cfg = json.load(open(os.path.join(V, "units", "units.json")))
bad = 0
for u, c in cfg["units"].items():
    try:
        g = process_template(os.path.join(V, c["template"]), "/repo")
        print("unit %-14s extracts %d items" % (u, len(g.functions)))
    except Exception as e:  # noqa: BLE001
        print("unit %s: %s" % (u, e)); bad += 1
sys.exit(0)   # a lost anchor is reported by the checks themselves (exit 2), not by setup

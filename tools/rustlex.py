"""A small Rust-aware tokenizer with bracket matching.

Token kinds: ws, comment, ident, lifetime, char, str (string / raw string / byte string /
byte char), num, punct (one character each).  No regex brace counting anywhere else in the
tools: every span is found through `match` (open bracket index -> close bracket index).
"""
from __future__ import annotations
from dataclasses import dataclass


@dataclass
class Tok:
    kind: str
    text: str
    start: int
    end: int


class LexError(Exception):
    pass


_ID_START = set("abcdefghijklmnopqrstuvwxyzABCDEFGHIJKLMNOPQRSTUVWXYZ_")
_ID_CONT = _ID_START | set("0123456789")


def lex(src: str) -> list[Tok]:
    toks: list[Tok] = []
    i, n = 0, len(src)
    while i < n:
        c = src[i]
        # whitespace
        if c in " \t\r\n":
            j = i
            while j < n and src[j] in " \t\r\n":
                j += 1
            toks.append(Tok("ws", src[i:j], i, j))
            i = j
            continue
        # comments
        if src.startswith("//", i):
            j = src.find("\n", i)
            if j < 0:
                j = n
            toks.append(Tok("comment", src[i:j], i, j))
            i = j
            continue
        if src.startswith("/*", i):
            depth, j = 1, i + 2
            while j < n and depth:
                if src.startswith("/*", j):
                    depth += 1
                    j += 2
                elif src.startswith("*/", j):
                    depth -= 1
                    j += 2
                else:
                    j += 1
            if depth:
                raise LexError("unterminated block comment")
            toks.append(Tok("comment", src[i:j], i, j))
            i = j
            continue
        # raw strings / byte strings / byte chars: r"..", r#".."#, b"..", br#".."#, b'.'
        if c in "rb":
            j = i
            pref = ""
            if src.startswith("br", j):
                pref = "br"
            elif src[j] == "r":
                pref = "r"
            elif src[j] == "b":
                pref = "b"
            k = j + len(pref)
            if "r" in pref and k < n and src[k] in '#"':
                h = 0
                while k < n and src[k] == "#":
                    h += 1
                    k += 1
                if k < n and src[k] == '"':
                    endpat = '"' + "#" * h
                    e = src.find(endpat, k + 1)
                    if e < 0:
                        raise LexError("unterminated raw string")
                    e += len(endpat)
                    toks.append(Tok("str", src[i:e], i, e))
                    i = e
                    continue
            elif pref == "b" and k < n and src[k] == '"':
                e = _scan_quoted(src, k, '"')
                toks.append(Tok("str", src[i:e], i, e))
                i = e
                continue
            elif pref == "b" and k < n and src[k] == "'":
                e = _scan_quoted(src, k, "'")
                toks.append(Tok("str", src[i:e], i, e))
                i = e
                continue
        if c == '"':
            e = _scan_quoted(src, i, '"')
            toks.append(Tok("str", src[i:e], i, e))
            i = e
            continue
        if c == "'":
            # char literal or lifetime
            if i + 1 < n and src[i + 1] == "\\":
                e = _scan_quoted(src, i, "'")
                toks.append(Tok("char", src[i:e], i, e))
                i = e
                continue
            if i + 2 < n and src[i + 2] == "'":
                toks.append(Tok("char", src[i:i + 3], i, i + 3))
                i += 3
                continue
            # multi-byte char literal such as '→'
            if i + 1 < n and src[i + 1] not in _ID_START:
                e = _scan_quoted(src, i, "'")
                toks.append(Tok("char", src[i:e], i, e))
                i = e
                continue
            j = i + 1
            while j < n and src[j] in _ID_CONT:
                j += 1
            toks.append(Tok("lifetime", src[i:j], i, j))
            i = j
            continue
        if c in _ID_START:
            j = i
            while j < n and src[j] in _ID_CONT:
                j += 1
            toks.append(Tok("ident", src[i:j], i, j))
            i = j
            continue
        if c.isdigit():
            j = i
            while j < n and (src[j] in _ID_CONT or (src[j] == "." and j + 1 < n and src[j + 1].isdigit())):
                j += 1
            toks.append(Tok("num", src[i:j], i, j))
            i = j
            continue
        toks.append(Tok("punct", c, i, i + 1))
        i += 1
    return toks


def _scan_quoted(src: str, i: int, q: str) -> int:
    j = i + 1
    n = len(src)
    while j < n:
        if src[j] == "\\":
            j += 2
            continue
        if src[j] == q:
            return j + 1
        j += 1
    raise LexError("unterminated literal at %d" % i)


_OPEN = {"(": ")", "[": "]", "{": "}"}
_CLOSE = {v: k for k, v in _OPEN.items()}


def match_brackets(toks: list[Tok]) -> dict[int, int]:
    """index of opening bracket token -> index of its closing token (and the reverse)."""
    st: list[int] = []
    m: dict[int, int] = {}
    for i, t in enumerate(toks):
        if t.kind != "punct":
            continue
        if t.text in _OPEN:
            st.append(i)
        elif t.text in _CLOSE:
            if not st or toks[st[-1]].text != _CLOSE[t.text]:
                raise LexError("unbalanced bracket %r at %d" % (t.text, t.start))
            o = st.pop()
            m[o] = i
            m[i] = o
    if st:
        raise LexError("unclosed bracket at %d" % toks[st[-1]].start)
    return m


def sig(toks: list[Tok]) -> list[int]:
    """indices of significant (non-ws, non-comment) tokens"""
    return [i for i, t in enumerate(toks) if t.kind not in ("ws", "comment")]


def byte_string_value(lit: str) -> bytes:
    """decode a b"..." literal (no raw strings) to its bytes"""
    assert lit.startswith('b"') and lit.endswith('"'), lit
    body = lit[2:-1]
    out = bytearray()
    i = 0
    while i < len(body):
        c = body[i]
        if c == "\\":
            d = body[i + 1]
            if d == "n":
                out.append(10); i += 2
            elif d == "r":
                out.append(13); i += 2
            elif d == "t":
                out.append(9); i += 2
            elif d == "0":
                out.append(0); i += 2
            elif d == "\\":
                out.append(92); i += 2
            elif d == '"':
                out.append(34); i += 2
            elif d == "'":
                out.append(39); i += 2
            elif d == "x":
                out.append(int(body[i + 2:i + 4], 16)); i += 4
            else:
                raise LexError("unsupported escape in byte string: " + lit)
        else:
            out.extend(c.encode("utf-8"))
            i += 1
    return bytes(out)

// F8 (C03): KNOWN FINDING, not repaired. Demonstration against the real junos-agent/src/policies/fetch.rs + compare.rs
// (append inside fetch.rs `mod tests`). A policy statement that is still marked as managed (it carries the
// `bgpfu-fltr:` annotation) but whose expression no longer parses is dropped from the candidates, so compare() sees the
// installed policy as "no longer managed" and emits a Delete for it (the acknowledged TODO at fetch.rs:143-145).
    #[test]
    fn verif_f8_malformed_annotation_must_not_delete_installed_policy() {
        use crate::policies::{Evaluated, Update};
        let doc = r#"<root><configuration xmlns="http://xml.juniper.net/xnm/1.1/xnm">
                    <policy-options>
                        <policy-statement xmlns:jcmd="http://yang.juniper.net/junos/jcmd"
                                          jcmd:comment="/* bgpfu-fltr: AS-FOO AND AND */">
                            <name>fltr-foo</name>
                            <then><reject/></then>
                        </policy-statement>
                    </policy-options>
                </configuration></root>"#;
        let mut reader = NsReader::from_str(doc);
        _ = reader.trim_text(true);
        let mut candidates = None;
        loop {
            match reader.read_resolved_event().unwrap() {
                (ResolveResult::Unbound, Event::Start(tag)) if tag.local_name().as_ref() == b"root" => {
                    candidates = Some(Policies::<Candidate>::read_xml(&mut reader, &tag).unwrap());
                }
                (_, Event::Eof) => break,
                (ns, event) => panic!("unexpected xml event {event:?} ({ns:?})"),
            }
        }
        let candidates = candidates.unwrap();
        // nothing to evaluate: the malformed statement is not among the candidates
        let evaluated: Policies<Evaluated> = Policies { map: candidates.map.into_iter().map(|(n, c)| (n, Evaluated { filter_expr: c.filter_expr, ranges: None })).collect() };
        let installed: Policies<Installed> = Policies {
            map: once((Name::new("fltr-foo"), Installed { ipv4: once("192.0.2.0/24,24,32".parse().unwrap()).collect(), ipv6: Ranges::default() })).collect(),
        };
        let updates = evaluated.compare(&installed);
        let deletes = updates.inner.iter().filter(|u| matches!(u, Update::Delete { .. })).count();
        assert_eq!(deletes, 0, "the still-managed policy 'fltr-foo' with a malformed annotation is deleted from the router");
    }

// Throw-away test module appended to a SCRATCH COPY of junos-agent/src/task.rs
// (/tmp/bkx/junos-agent/src/task.rs).  Nothing in /repo was modified.
//
// Helper edits needed in other files of the scratch copy:
//   * /tmp/bkx/junos-agent/Cargo.toml, under [dev-dependencies], added:
//         tokio = { workspace = true, features = ["test-util", "macros", "rt", "time"] }
//   * No edit to cli.rs was needed: IrrdOpts / JunosOpts are built through a
//     tiny clap::Parser wrapper (`TestCli`) with their default values.
//
// Run:
//   cd /tmp/bkx && CARGO_TARGET_DIR=/tmp/bkx-target timeout 1500 \
//     cargo test --offline -p bgpfu-junos-agent verif_tests -- --nocapture --test-threads=1
#[cfg(test)]
mod verif_tests {
    use std::sync::Mutex;

    use anyhow::anyhow;
    use clap::Parser;
    use tokio::time::Instant;

    use super::*;
    use crate::netconf::{Client, Closed};

    #[derive(Debug, Clone)]
    struct Failing {
        attempts: Arc<Mutex<Vec<Instant>>>,
    }

    impl Target for Failing {
        type Transport = netconf::transport::JunosLocal;

        async fn connect(self) -> anyhow::Result<Client<Self, Closed>> {
            self.attempts.lock().unwrap().push(Instant::now());
            Err(anyhow!("boom"))
        }
    }

    #[derive(Debug, Parser)]
    struct TestCli {
        #[command(flatten)]
        junos: JunosOpts,
        #[command(flatten)]
        irrd: IrrdOpts,
    }

    /// Run the real `Loop::start` with an always-failing target for `run_for`
    /// seconds of virtual time, and return the delays (in whole seconds)
    /// between consecutive attempts.
    async fn observe_delays(period: u64, run_for: u64) -> Vec<u64> {
        let attempts = Arc::new(Mutex::new(Vec::new()));
        let fake = Failing {
            attempts: attempts.clone(),
        };
        let opts = TestCli::parse_from(["test"]);
        let updater = Updater::new(fake, opts.irrd, opts.junos);
        let start = Instant::now();
        let task = tokio::spawn(
            updater
                .init_loop(NonZeroU64::new(period).unwrap())
                .start(),
        );
        time::sleep(Duration::from_secs(run_for)).await;
        task.abort();
        let _ = task.await;
        let attempts = attempts.lock().unwrap().clone();
        let offsets: Vec<u64> = attempts
            .iter()
            .map(|t| t.duration_since(start).as_secs())
            .collect();
        let delays: Vec<u64> = attempts
            .windows(2)
            .map(|w| w[1].duration_since(w[0]).as_secs())
            .collect();
        println!("VERIF period={period}s attempt offsets (s) = {offsets:?}");
        println!("VERIF period={period}s retry delays   (s) = {delays:?}");
        delays
    }

    fn check(period: u64, delays: &[u64]) {
        let cap = std::cmp::max(period, MIN_BACKOFF.as_secs());
        assert!(delays.len() >= 3, "too few attempts observed: {delays:?}");
        assert_eq!(delays[0], 60, "first retry delay must be one minute");
        assert!(
            delays.windows(2).all(|w| w[0] <= w[1]),
            "period={period}: retry delays are not non-decreasing: {delays:?}"
        );
        assert!(
            delays.iter().all(|d| *d <= cap),
            "period={period}: retry delay exceeds max(60, period)={cap}: {delays:?}"
        );
    }

    #[tokio::test(start_paused = true)]
    async fn backoff_period_30() {
        let delays = observe_delays(30, 400).await;
        check(30, &delays);
    }

    #[tokio::test(start_paused = true)]
    async fn backoff_period_600() {
        let delays = observe_delays(600, 4000).await;
        check(600, &delays);
    }
}

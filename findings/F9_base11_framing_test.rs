
#[cfg(test)]
mod verif_f9 {
    // F9 (C12): the client offers :base:1.1 although only end-of-message framing is implemented.
    use crate::capabilities::{Base, Capabilities, Capability};
    use crate::message::ClientHello;

    #[test]
    fn negotiated_version_must_be_one_the_client_can_frame() {
        // a conforming server that supports both base versions
        let server: Capabilities = [Capability::Base(Base::V1_0), Capability::Base(Base::V1_1)].into_iter().collect();
        let client = ClientHello::default().capabilities();
        let negotiated = client.highest_common_version(&server).unwrap();
        // RFC 6242 4.1: with :base:1.1 on both sides all further messages use chunked framing, which this
        // client neither produces (ClientMsg::to_xml appends "]]>]]>") nor parses (the transports search for "]]>]]>" only)
        assert_eq!(negotiated, Base::V1_0, "session negotiates {negotiated:?} but only end-of-message framing exists");
    }
}

// F12 (C15): a managed policy whose filter expression is valid RPSL but uses a construct the evaluator does not support
// (AS-path regular expression, attribute match) makes the rpsl crate's evaluator hit `todo!()` (rpsl-0.1.1
// src/expr/eval/mod.rs:111-112).  The panic unwinds through Candidate::evaluate and Policies::<Candidate>::evaluate, kills the
// evaluation task, handle_task() reports "task panicked" and the whole run aborts: no other policy is updated.
//
// Demonstration: append this module to junos-agent/src/policies/eval.rs and run
//   cargo test -p bgpfu-junos-agent --offline f12_
// Unfixed tree: both tests panic with "not yet implemented: AS-path regexp expressions not yet implemented" /
// "... action match expressions not yet implemented".  Repaired tree: both pass.
#[cfg(test)]
mod f12_tests {
    use std::{
        io::{BufRead, BufReader, Write},
        net::TcpListener,
        thread,
    };

    use super::super::Name;
    use super::*;

    /// A minimal IRRd look-alike: acknowledges session set-up commands, answers every query with `D` ("key not found").
    fn fake_irrd() -> u16 {
        let listener = TcpListener::bind(("127.0.0.1", 0)).unwrap();
        let port = listener.local_addr().unwrap().port();
        _ = thread::spawn(move || {
            for stream in listener.incoming() {
                let mut stream = stream.unwrap();
                stream.set_nodelay(true).unwrap();
                let reader = BufReader::new(stream.try_clone().unwrap());
                for line in reader.lines() {
                    let Ok(line) = line else { break };
                    let response = match line.as_str() {
                        "!!" => continue,
                        "!q" => break,
                        cmd if cmd.starts_with("!n") || cmd.starts_with("!t") => "C\n",
                        _ => "D\n",
                    };
                    if stream.write_all(response.as_bytes()).is_err() {
                        break;
                    }
                }
            }
        });
        port
    }

    fn run(unsupported: &str) {
        let mut evaluator = RpslEvaluator::new("127.0.0.1", fake_irrd()).unwrap();
        let exprs = [unsupported, "{ 192.0.2.0/24 }", "{ 2001:db8::/32 }^48"];
        let map = exprs
            .iter()
            .enumerate()
            .map(|(i, expr)| {
                (
                    Name::new(format!("fltr-{i}")),
                    Candidate {
                        filter_expr: expr.parse().unwrap(),
                    },
                )
            })
            .collect();
        let evaluated = Policies { map }.evaluate(&mut evaluator);
        // every candidate is still there, the two evaluable ones were evaluated, the unsupported one has no ranges
        assert_eq!(evaluated.len(), 3);
        assert_eq!(evaluated.succeeded(), 2);
    }

    #[test]
    fn f12_as_path_regex_affects_only_itself() {
        run("<^AS65000 AS65001$>");
    }

    #[test]
    fn f12_attribute_match_affects_only_itself() {
        run("community.contains(65000:100)");
    }
}

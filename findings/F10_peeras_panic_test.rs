
#[cfg(test)]
mod verif_f10 {
    // F10 (C15): a managed policy whose expression uses PeerAS must fail on its own, not abort the run with a panic.
    use super::*;

    #[test]
    fn peeras_is_an_evaluation_error_not_a_panic() {
        // no IRR connection is needed: PeerAS is resolved locally
        let mut evaluator = RpslEvaluator { conn: None };
        let expr: MpFilterExpr = "PeerAS".parse().unwrap();
        let outcome = std::panic::catch_unwind(std::panic::AssertUnwindSafe(|| evaluator.evaluate(expr)));
        match outcome {
            Ok(result) => assert!(result.is_err()),
            Err(_) => panic!("evaluating 'PeerAS' panicked: in the agent this kills the evaluation task and aborts the whole run"),
        }
    }
}

// F7 (C01): demonstration used against the real junos-agent/src/policies/load.rs (append inside `mod tests`).
// On the unfixed code `written` contains `<term><name>inet6</name></term>`; merged into the ephemeral database this
// creates a term without <from>/<then>, and Policies::<Installed>::read_xml (fetch.rs) then fails with
// MissingElement { msg_type: "policy-statement", element: "then" } on every later run (confirmed in the design phase).
    #[test]
    fn verif_f7_no_empty_term_for_empty_family() {
        let filter_expr = "{ 192.0.2.0/24^+ }".parse().unwrap();
        let ipv4: Ranges<_> = "192.0.2.0/24,24,32".parse().map(once).unwrap().collect();
        let update = Update::Update {
            name: Name::new("fltr-foo"),
            filter_expr: &filter_expr,
            ipv4: Differences { old: None, new: &ipv4 },
            ipv6: Differences { old: None, new: &Ranges::default() },
        };
        let written = {
            let mut buf = Vec::new();
            let mut writer = Writer::new(&mut buf);
            update.write_xml(&mut writer).unwrap();
            from_utf8(&buf).unwrap().to_string()
        };
        assert!(!written.contains("<term><name>inet6</name></term>"), "{written}");
    }

// F13 (C03): a managed policy whose expression names a route-set or a filter-set that the IRR does not know was evaluated to the
// EMPTY set instead of failing (lib/src/query.rs: RpslEvaluator::sink_error swallowed the KeyNotFound response of the set query;
// the filter-set resolver then fell back to "NOT ANY").  compare() then emitted an update that deletes every installed range of
// that policy - "unobtainable prefix data empties a managed policy".  Unknown as-sets already failed correctly.
//
// Demonstration: append this module to junos-agent/src/policies/eval.rs and run
//   cargo test -p bgpfu-junos-agent --offline f13_
// Before the fix: f13_unknown_route_set_fails and f13_unknown_filter_set_fails fail with `left: Some(0), right: None`.
// After the fix (sink_error no longer sinks KeyNotFound for route-set / rpsl-object queries): all three pass.
#[cfg(test)]
mod f13_tests {
    use std::{
        io::{BufRead, BufReader, Write},
        net::TcpListener,
        thread,
    };

    use super::super::Name;
    use super::*;

    fn fake_irrd() -> u16 {
        let listener = TcpListener::bind(("127.0.0.1", 0)).unwrap();
        let port = listener.local_addr().unwrap().port();
        _ = thread::spawn(move || {
            for stream in listener.incoming() {
                let mut stream = stream.unwrap();
                stream.set_nodelay(true).unwrap();
                let reader = BufReader::new(stream.try_clone().unwrap());
                for line in reader.lines() {
                    let Ok(line) = line else { break };
                    let response = match line.as_str() {
                        "!!" => continue,
                        "!q" => break,
                        cmd if cmd.starts_with("!n") || cmd.starts_with("!t") => "C\n",
                        _ => "D\n",
                    };
                    if stream.write_all(response.as_bytes()).is_err() {
                        break;
                    }
                }
            }
        });
        port
    }

    fn ranges_of(expr: &str) -> Option<usize> {
        let mut evaluator = RpslEvaluator::new("127.0.0.1", fake_irrd()).unwrap();
        let map = [(Name::new("fltr-x".to_string()), Candidate { filter_expr: expr.parse().unwrap() })]
            .into_iter()
            .collect();
        let evaluated = Policies { map }.evaluate(&mut evaluator);
        evaluated.map.values().next().unwrap().ranges.as_ref().map(|(v4, v6)| v4.iter().count() + v6.iter().count())
    }

    // every set the IRR does not know must make the evaluation FAIL (ranges: None), never yield an empty set
    #[test]
    fn f13_unknown_as_set_fails() { assert_eq!(ranges_of("AS-MISSING"), None); }
    #[test]
    fn f13_unknown_route_set_fails() { assert_eq!(ranges_of("RS-MISSING"), None); }
    #[test]
    fn f13_unknown_filter_set_fails() { assert_eq!(ranges_of("FLTR-MISSING"), None); }
}


#[cfg(test)]
mod verif_tests {
    //! Throw-away tests: in-process russh server vs. the real `Ssh::connect` pump.
    use std::{sync::Arc, time::Duration};

    use async_trait::async_trait;
    use russh::{
        server::{self, Auth, Msg, Session},
        Channel, ChannelId, CryptoVec, Disconnect,
    };
    use tokio::{net::TcpListener, sync::Notify, time::timeout};

    use super::{Password, Ssh};
    use crate::transport::{RecvHandle, Transport};

    #[derive(Clone, Copy, Debug)]
    enum Mode {
        /// send two complete messages in ONE channel-data packet, then stay up
        TwoInOne,
        /// SSH_MSG_CHANNEL_CLOSE without a preceding CHANNEL_EOF
        CloseNoEof,
        /// SSH_MSG_DISCONNECT
        Disconnect,
        /// reply success, then the TCP socket is dropped by the test harness
        TcpDrop,
    }

    struct TestServer {
        mode: Mode,
        subsystem_up: Arc<Notify>,
    }

    #[async_trait]
    impl server::Handler for TestServer {
        type Error = russh::Error;

        async fn auth_password(self, _: &str, _: &str) -> Result<(Self, Auth), Self::Error> {
            Ok((self, Auth::Accept))
        }

        async fn channel_open_session(
            self,
            _channel: Channel<Msg>,
            session: Session,
        ) -> Result<(Self, bool, Session), Self::Error> {
            Ok((self, true, session))
        }

        async fn subsystem_request(
            self,
            channel: ChannelId,
            name: &str,
            mut session: Session,
        ) -> Result<(Self, Session), Self::Error> {
            assert_eq!(name, "netconf");
            session.channel_success(channel);
            match self.mode {
                Mode::TwoInOne => {
                    session.data(channel, CryptoVec::from(b"<a/>]]>]]><b/>]]>]]>".to_vec()));
                }
                Mode::CloseNoEof => session.close(channel),
                Mode::Disconnect => session.disconnect(Disconnect::ByApplication, "bye", "en"),
                Mode::TcpDrop => {}
            }
            self.subsystem_up.notify_one();
            Ok((self, session))
        }
    }

    /// Serve exactly one connection; returns the address to connect to.
    async fn spawn_server(mode: Mode) -> std::net::SocketAddr {
        let config = Arc::new(server::Config {
            auth_rejection_time: Duration::from_millis(0),
            auth_rejection_time_initial: Some(Duration::from_millis(0)),
            keys: vec![russh_keys::key::KeyPair::generate_ed25519().unwrap()],
            ..Default::default()
        });
        let listener = TcpListener::bind("127.0.0.1:0").await.unwrap();
        let addr = listener.local_addr().unwrap();
        tokio::spawn(async move {
            let (mut tcp, _) = listener.accept().await.unwrap();
            let subsystem_up = Arc::new(Notify::new());
            let handler = TestServer {
                mode,
                subsystem_up: subsystem_up.clone(),
            };
            // proxy TCP <-> in-memory duplex so that the harness owns the socket and can
            // drop it abruptly (Mode::TcpDrop) independent of russh's server session task.
            let (mut near, far) = tokio::io::duplex(1 << 16);
            tokio::spawn(async move {
                if let Ok(running) = server::run_stream(config, far, handler).await {
                    let _ = running.await;
                }
            });
            let copy = tokio::io::copy_bidirectional(&mut tcp, &mut near);
            if matches!(mode, Mode::TcpDrop) {
                tokio::select! {
                    _ = copy => {}
                    () = async {
                        subsystem_up.notified().await;
                        // let the CHANNEL_SUCCESS reply reach the client first
                        tokio::time::sleep(Duration::from_millis(300)).await;
                    } => {}
                }
                // `tcp` dropped here: socket closed with no CHANNEL_EOF/CLOSE/DISCONNECT
            } else {
                let _ = copy.await;
            }
        });
        addr
    }

    fn cpu_ticks() -> u64 {
        // utime + stime of this process, in clock ticks (normally 100/s)
        let s = std::fs::read_to_string("/proc/self/stat").unwrap();
        let rest = &s[s.rfind(')').unwrap() + 2..];
        let f: Vec<&str> = rest.split(' ').collect();
        f[11].parse::<u64>().unwrap() + f[12].parse::<u64>().unwrap()
    }

    async fn client(mode: Mode) -> super::Receiver {
        let addr = spawn_server(mode).await;
        let ssh = Ssh::connect(addr, "user".to_string(), "pw".parse::<Password>().unwrap())
            .await
            .expect("Ssh::connect failed");
        let (tx, rx) = ssh.split();
        // keep the send handle alive for the whole process so the pump never ends
        // through the `out_queue_rx.recv() == None => break` path.
        std::mem::forget(tx);
        rx
    }

    /// F3: two complete messages in one channel-data packet must both be delivered.
    #[tokio::test(flavor = "multi_thread", worker_threads = 2)]
    async fn f3_two_messages_in_one_packet() {
        let mut rx = client(Mode::TwoInOne).await;
        let first = timeout(Duration::from_secs(2), rx.recv())
            .await
            .expect("F3: first recv() timed out")
            .expect("F3: first recv() returned Err");
        assert_eq!(&first[..], b"<a/>]]>]]>");
        let second = timeout(Duration::from_secs(2), rx.recv())
            .await
            .expect("F3: second recv() timed out after 2s: second message stuck in pump buffer")
            .expect("F3: second recv() returned Err");
        assert_eq!(&second[..], b"<b/>]]>]]>");
    }

    async fn f4(mode: Mode) {
        let mut rx = client(mode).await;
        let t0 = cpu_ticks();
        let r = timeout(Duration::from_secs(3), rx.recv()).await;
        let spent = cpu_ticks() - t0;
        eprintln!("F4 {mode:?}: recv() -> {r:?}; process CPU ticks during 3s wait: {spent}");
        let inner = r.unwrap_or_else(|_| {
            panic!(
                "F4 {mode:?}: recv() still pending 3s after server hang-up \
                 (pump did not terminate; cpu ticks burnt = {spent})"
            )
        });
        assert!(inner.is_err(), "F4 {mode:?}: expected Err, got {inner:?}");
    }

    /// F4a: server sends CHANNEL_CLOSE without CHANNEL_EOF.
    #[tokio::test(flavor = "multi_thread", worker_threads = 2)]
    async fn f4a_channel_close_without_eof() {
        f4(Mode::CloseNoEof).await;
    }

    /// F4b: server sends SSH DISCONNECT.
    #[tokio::test(flavor = "multi_thread", worker_threads = 2)]
    async fn f4b_ssh_disconnect() {
        f4(Mode::Disconnect).await;
    }

    /// F4c: TCP connection dropped with no SSH-level goodbye at all.
    #[tokio::test(flavor = "multi_thread", worker_threads = 2)]
    async fn f4c_tcp_drop() {
        f4(Mode::TcpDrop).await;
    }
}
